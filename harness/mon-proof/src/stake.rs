//! Cardano stake distributions: (certified map, served map, outcome).
//! certified message = real `CardanoStakeDistributionSignableBuilder` over the real `StakePoolStore`
//! (sqlite); client = `MessageBuilder::compute_cardano_stake_distribution_message` + match_message.
//! Oracle: accept => served epoch and map are EXACTLY the certified ones.
use mithril_client::MessageBuilder;
use mithril_common::entities::{Epoch, StakeDistribution};
use mithril_common::messages::CardanoStakeDistributionMessage;
use rand_chacha::ChaCha20Rng;
use serde_json::json;
use std::collections::HashMap;
use vcore::{rnd, Monitor};

use crate::agg::{Agg, Cert, CertKind};
use crate::chain::hex_hash;
use crate::oracle::{SIG_HONEST_REJECTED, SIG_NO_CERT, SIG_OTHER_KIND};

pub const SIG_SHIFT: &str = "C11 stake-distribution leaf pool_id||decimal(stake) boundary shift";
pub const SIG_ALTERED: &str = "C11 stake distribution altered yet accepted";
pub const SIG_EPOCH: &str = "C11 stake distribution epoch altered yet accepted";

const BECH: &[u8] = b"qpzry9x8gf2tvdw0s3jn54khce6mua7l";
const BECH_DIGITS: &[u8] = b"023456789";

fn pool_id(rng: &mut ChaCha20Rng) -> String {
    let len = match rnd::below(rng, 4) {
        0 => rnd::range(rng, 3, 8),
        1 => 51,
        _ => rnd::range(rng, 20, 51),
    } as usize;
    let mut s = String::from("pool1");
    for _ in 0..len {
        s.push(*rnd::pick(rng, BECH) as char);
    }
    // half of the identifiers end with 1-3 digit characters of the bech32 alphabet
    if rnd::chance(rng, 1, 2) {
        for _ in 0..rnd::range(rng, 1, 3) {
            s.pop();
        }
        while s.len() < 5 + len {
            s.push(*rnd::pick(rng, BECH_DIGITS) as char);
        }
    }
    s
}

fn stake(rng: &mut ChaCha20Rng) -> u64 {
    match rnd::below(rng, 8) {
        0 => rnd::below(rng, 10),
        1 => rnd::range(rng, 10, 999),
        2 => 10u64.pow(rnd::range(rng, 1, 15) as u32),
        3 => rnd::range(rng, 1, 9) * 10u64.pow(rnd::range(rng, 1, 12) as u32) + rnd::below(rng, 10),
        4 => rnd::range(rng, 1_000_000, 70_000_000_000_000),
        5 => 0,
        _ => rnd::range(rng, 1_000, 5_000_000_000),
    }
}

pub fn gen_map(rng: &mut ChaCha20Rng) -> StakeDistribution {
    let n = match rnd::below(rng, 4) {
        0 => rnd::range(rng, 1, 3),
        1 => rnd::range(rng, 4, 15),
        _ => rnd::range(rng, 1, 60),
    };
    let mut m = StakeDistribution::new();
    while (m.len() as u64) < n {
        let id = pool_id(rng);
        // sometimes a sibling identifier = this one plus digits (ordering neighbours)
        if rnd::chance(rng, 1, 10) {
            let mut sib = id.clone();
            sib.push(*rnd::pick(rng, BECH_DIGITS) as char);
            m.insert(sib, stake(rng));
        }
        m.insert(id, stake(rng));
    }
    m
}

pub struct SCand {
    pub class: String,
    pub served: CardanoStakeDistributionMessage,
}

fn trailing_digits(s: &str) -> usize {
    s.bytes().rev().take_while(|b| b.is_ascii_digit()).count()
}

/// move `k` trailing digits of the identifier to the front of the stake
fn shift_id_to_stake(id: &str, st: u64, k: usize) -> Option<(String, u64)> {
    if trailing_digits(id) < k || k == 0 {
        return None;
    }
    let (a, b) = id.split_at(id.len() - k);
    let ns = format!("{b}{st}");
    ns.parse::<u64>().ok().map(|v| (a.to_string(), v))
}

/// move `k` leading digits of the stake to the end of the identifier
fn shift_stake_to_id(id: &str, st: u64, k: usize) -> Option<(String, u64)> {
    let s = st.to_string();
    if s.len() <= k || k == 0 {
        return None;
    }
    let (a, b) = s.split_at(k);
    b.parse::<u64>().ok().map(|v| (format!("{id}{a}"), v))
}

fn replace_entry(map: &StakeDistribution, old: &str, new_id: String, new_stake: u64) -> Option<StakeDistribution> {
    let mut m = map.clone();
    m.remove(old);
    if m.contains_key(&new_id) {
        return None;
    }
    m.insert(new_id, new_stake);
    Some(m)
}

pub fn candidates(honest: &CardanoStakeDistributionMessage, certs: &[Cert], cert: &Cert, rng: &mut ChaCha20Rng) -> Vec<SCand> {
    let mut out = vec![];
    let map = &honest.stake_distribution;
    let ids: Vec<String> = map.keys().cloned().collect();
    let mut push = |class: &str, f: &dyn Fn(&mut CardanoStakeDistributionMessage)| {
        let mut s = honest.clone();
        f(&mut s);
        out.push(SCand { class: class.to_string(), served: s });
    };
    push("honest", &|_| {});
    push("BENIGN_hash_field_changed", &|s| s.hash = "0000".into());
    push("BENIGN_created_at_changed", &|s| s.created_at += chrono::Duration::days(365));
    let uh = hex_hash(rng);
    push("cert_hash_unknown", &|s| s.certificate_hash = uh.clone());
    let others: Vec<&Cert> = certs.iter().filter(|c| c.kind == CertKind::Stake && c.hash() != cert.hash()).collect();
    if !others.is_empty() {
        let o = *rnd::pick(rng, &others);
        push("cert_hash_other_epoch", &|s| s.certificate_hash = o.hash().to_string());
        push("cert_hash_and_epoch_of_other", &|s| {
            s.certificate_hash = o.hash().to_string();
            s.epoch = Epoch(o.epoch);
        });
    }
    let otherk: Vec<&Cert> = certs.iter().filter(|c| c.kind != CertKind::Stake).collect();
    if !otherk.is_empty() {
        let o = *rnd::pick(rng, &otherk);
        push("cert_hash_other_kind", &|s| s.certificate_hash = o.hash().to_string());
    }
    push("epoch_plus1", &|s| s.epoch = Epoch(*s.epoch + 1));
    push("epoch_minus1", &|s| s.epoch = Epoch(s.epoch.saturating_sub(1)));
    push("epoch_times10", &|s| s.epoch = Epoch(*s.epoch * 10));
    // entry edits, on up to 4 pools
    let mut picks: Vec<String> = ids.clone();
    rnd::shuffle(rng, &mut picks);
    picks.truncate(4);
    if map.contains_key("pool1abcx7") && !picks.iter().any(|p| p == "pool1abcx7") {
        picks.push("pool1abcx7".to_string());
    }
    for id in &picks {
        let st = map[id];
        push("stake_plus1", &|s| {
            s.stake_distribution.insert(id.clone(), st.wrapping_add(1));
        });
        push("stake_minus1", &|s| {
            s.stake_distribution.insert(id.clone(), if st == 0 { 2 } else { st - 1 });
        });
        push("stake_times10", &|s| {
            s.stake_distribution.insert(id.clone(), if st == 0 { 10 } else { st.wrapping_mul(10) });
        });
        push("stake_zero", &|s| {
            s.stake_distribution.insert(id.clone(), if st == 0 { 1 } else { 0 });
        });
        push("pool_removed", &|s| {
            s.stake_distribution.remove(id);
        });
        let nid = {
            let mut b = id.clone().into_bytes();
            let i = b.len() - 1 - rnd::usize_below(rng, (b.len() - 5).max(1)).min(b.len() - 1);
            b[i] = if b[i] == b'q' { b'p' } else { b'q' };
            String::from_utf8(b).unwrap()
        };
        if let Some(m2) = replace_entry(map, id, nid, st) {
            push("id_one_char", &|s| s.stake_distribution = m2.clone());
        }
        if let Some(m2) = replace_entry(map, id, id.to_uppercase(), st) {
            push("id_uppercase", &|s| s.stake_distribution = m2.clone());
        }
        if let Some(m2) = replace_entry(map, id, format!("{id} "), st) {
            push("id_trailing_space", &|s| s.stake_distribution = m2.clone());
        }
        for k in 1..=3usize {
            if let Some((ni, ns)) = shift_id_to_stake(id, st, k) {
                if let Some(m2) = replace_entry(map, id, ni, ns) {
                    push(&format!("shift_{k}_id_digits_into_stake"), &|s| s.stake_distribution = m2.clone());
                }
            }
            if let Some((ni, ns)) = shift_stake_to_id(id, st, k) {
                if let Some(m2) = replace_entry(map, id, ni, ns) {
                    push(&format!("shift_{k}_stake_digits_into_id"), &|s| s.stake_distribution = m2.clone());
                }
            }
        }
    }
    // every shiftable pool shifted at once (both directions)
    {
        let mut m2 = map.clone();
        let mut changed = 0;
        for id in &ids {
            let st = map[id];
            let r = if rnd::chance(rng, 1, 2) { shift_id_to_stake(id, st, 1) } else { shift_stake_to_id(id, st, 1) };
            if let Some((ni, ns)) = r {
                if !m2.contains_key(&ni) {
                    m2.remove(id);
                    m2.insert(ni, ns);
                    changed += 1;
                }
            }
        }
        if changed > 1 {
            push("shift_many_pools_at_once", &|s| s.stake_distribution = m2.clone());
        }
    }
    if ids.len() >= 2 {
        let a = ids[rnd::usize_below(rng, ids.len())].clone();
        let b = ids[rnd::usize_below(rng, ids.len())].clone();
        if a != b && map[&a] != map[&b] {
            push("stakes_swapped", &|s| {
                let (x, y) = (s.stake_distribution[&a], s.stake_distribution[&b]);
                s.stake_distribution.insert(a.clone(), y);
                s.stake_distribution.insert(b.clone(), x);
            });
        }
        if a != b && map[&a] > 0 {
            push("unit_of_stake_moved", &|s| {
                let (x, y) = (s.stake_distribution[&a], s.stake_distribution[&b]);
                s.stake_distribution.insert(a.clone(), x - 1);
                s.stake_distribution.insert(b.clone(), y.wrapping_add(1));
            });
        }
        // two adjacent entries merged into one: ids a<b adjacent, "a"+"sa" ++ "b"+"sb"
    }
    let np = pool_id(rng);
    let nst = stake(rng);
    push("pool_added", &|s| {
        s.stake_distribution.insert(np.clone(), nst);
    });
    push("all_pools_removed", &|s| s.stake_distribution.clear());
    out
}

fn leaf_strings(m: &StakeDistribution) -> Vec<String> {
    m.iter().map(|(k, v)| format!("{k}{v}")).collect()
}

#[derive(Debug)]
pub enum SOutcome {
    RejectedDecode(String),
    RejectedNoCertificate,
    RejectedCompute(String),
    RejectedMismatch,
    Accepted,
}
impl SOutcome {
    pub fn label(&self) -> &'static str {
        match self {
            SOutcome::RejectedDecode(_) => "rejected_decode",
            SOutcome::RejectedNoCertificate => "rejected_no_certificate",
            SOutcome::RejectedCompute(_) => "rejected_compute",
            SOutcome::RejectedMismatch => "rejected_message_mismatch",
            SOutcome::Accepted => "ACCEPTED",
        }
    }
}

/// the client (code under test)
pub fn client_check(wire: &str, certs: &HashMap<String, Cert>) -> (SOutcome, Option<CardanoStakeDistributionMessage>) {
    let served: CardanoStakeDistributionMessage = match serde_json::from_str(wire) {
        Ok(s) => s,
        Err(e) => return (SOutcome::RejectedDecode(e.to_string()), None),
    };
    let Some(cert) = certs.get(&served.certificate_hash) else { return (SOutcome::RejectedNoCertificate, Some(served)) };
    let message = match MessageBuilder::new().compute_cardano_stake_distribution_message(&cert.message, &served) {
        Ok(m) => m,
        Err(e) => return (SOutcome::RejectedCompute(format!("{e:?}").chars().take(160).collect()), Some(served)),
    };
    if cert.message.match_message(&message) {
        (SOutcome::Accepted, Some(served))
    } else {
        (SOutcome::RejectedMismatch, Some(served))
    }
}

/// oracle
pub fn falsehoods(served: &CardanoStakeDistributionMessage, certs: &HashMap<String, Cert>) -> Vec<(&'static str, String)> {
    let mut out = vec![];
    let Some(cert) = certs.get(&served.certificate_hash) else {
        out.push((SIG_NO_CERT, "no such certificate".to_string()));
        return out;
    };
    if cert.kind != CertKind::Stake {
        out.push((SIG_OTHER_KIND, format!("certificate is of kind {}", cert.kind.as_str())));
        return out;
    }
    let certified = cert.stakes.as_ref().unwrap();
    if &served.stake_distribution != certified {
        let diff: Vec<String> = served
            .stake_distribution
            .iter()
            .filter(|(k, v)| certified.get(*k) != Some(*v))
            .map(|(k, v)| format!("served {k}={v}"))
            .chain(certified.iter().filter(|(k, v)| served.stake_distribution.get(*k) != Some(*v)).map(|(k, v)| format!("certified {k}={v}")))
            .take(8)
            .collect();
        if leaf_strings(&served.stake_distribution) == leaf_strings(certified) {
            out.push((SIG_SHIFT, diff.join(", ")));
        } else {
            out.push((SIG_ALTERED, diff.join(", ")));
        }
    }
    if *served.epoch != cert.epoch {
        out.push((SIG_EPOCH, format!("served epoch {}, certified epoch {}", *served.epoch, cert.epoch)));
    }
    out
}

/// one world's stake-distribution cases
pub async fn run(agg: &mut Agg, certs: &mut Vec<Cert>, cert_map: &mut HashMap<String, Cert>, mon: &mut Monitor, rng: &mut ChaCha20Rng, n_cases: usize, epoch_base: u64, world_tag: &str) {
    for i in 0..n_cases {
        let map = if i == 0 {
            // the canonical witness pair of the probe: {"pool1abcx7": 5} vs {"pool1abcx": 75},
            // alone in the first world of a shard, among other pools elsewhere
            let mut m = if world_tag.ends_with("-w0") { StakeDistribution::new() } else { gen_map(rng) };
            m.insert("pool1abcx7".to_string(), 5);
            m
        } else {
            gen_map(rng)
        };
        let epoch = epoch_base + i as u64;
        let (cert, honest) = match agg.sign_stake_distribution(epoch, &map).await {
            Ok(x) => x,
            Err(e) => {
                mon.inconclusive(&format!("stake distribution signing failed: {e:?}"));
                return;
            }
        };
        if honest.stake_distribution != map {
            // the store did not give back what was saved: not this property's business, but the
            // oracle needs the certified map to be the saved one
            mon.count("stake|store_returned_a_different_map");
        }
        mon.count("stake|distributions_signed");
        certs.push(cert.clone());
        cert_map.insert(cert.hash().to_string(), cert.clone());
        for c in candidates(&honest, certs, &cert, rng) {
            let wire = serde_json::to_string(&c.served).unwrap();
            let (outcome, served) = client_check(&wire, cert_map);
            mon.eval();
            mon.count(&format!("stake|{}|{}", c.class, outcome.label()));
            let Some(served) = served else { continue };
            let f = falsehoods(&served, cert_map);
            let accepted = matches!(outcome, SOutcome::Accepted);
            let replay = || {
                json!({"kind": "stake", "world": world_tag, "class": c.class, "certified_epoch": cert.epoch,
                       "certified": cert.stakes, "served": serde_json::from_str::<serde_json::Value>(&wire).unwrap_or_default(),
                       "certificate": crate::oracle::cert_json(&cert), "outcome": outcome.label()})
            };
            if c.class == "honest" {
                mon.nontrivial_str(&format!("stake|honest|{wire}"));
                if !accepted {
                    mon.violation(SIG_HONEST_REJECTED, &format!("honest stake distribution rejected: {outcome:?}"), replay());
                }
                continue;
            }
            if !f.is_empty() {
                mon.nontrivial_str(&format!("stake|{}|{wire}", c.class));
                if accepted {
                    let (sig, detail) = &f[0];
                    mon.count(&format!("stake|ACCEPTED_FALSE|{sig}"));
                    mon.violation(
                        sig,
                        &format!("served stake distribution differs from the certified one and is accepted ({}): {detail}", c.class),
                        replay(),
                    );
                    if world_tag.starts_with("s0-") && mon.counter("sample|stake_shift") < 1 && *sig == SIG_SHIFT {
                        mon.count("sample|stake_shift");
                        mon.sample(json!({"kind": "stake", "class": c.class, "outcome": "ACCEPTED", "certified": cert.stakes, "served": served.stake_distribution, "difference": detail}));
                    }
                }
                else if world_tag.starts_with("s0-") && mon.counter("sample|stake") < 1 && c.class == "stake_plus1" {
                    mon.count("sample|stake");
                    mon.sample(json!({"kind": "stake", "class": c.class, "outcome": outcome.label(), "pools": served.stake_distribution.len(), "false_claims": f.iter().map(|(s, d)| format!("{s}: {d}")).collect::<Vec<_>>()}));
                }
            } else if accepted {
                mon.count("stake|accepted_truthful");
            }
        }
    }
}
