//! The adversary: structure-aware alterations of an honest aggregator response.
//! Forged proofs are built with the real Merkle library (an adversary has it too), so that they
//! are internally consistent and only fail where a layer is tied to the next one.
use mithril_common::crypto_helper::{MKMap, MKMapNode, MKMapProof, MKTree, MKTreeNode, MKTreeStoreInMemory};
use mithril_common::entities::{BlockNumber, BlockNumberOffset, BlockRange, SlotNumber};
use mithril_common::messages::{
    CardanoBlockMessagePart, CardanoTransactionMessagePart, CardanoTransactionsSetProofMessagePart, MkSetProofMessagePart,
};
use rand_chacha::ChaCha20Rng;
use serde_json::{json, Value};
use vcore::rnd;

use crate::agg::Cert;
use crate::chain::{hex_hash, range_start, Block, Chain, RANGE};
use crate::oracle::{decode_proof, encode_proof, leaf_blk_v2, leaf_legacy, leaf_tx_v2, Fmt, Resp};

pub struct Ctx<'a> {
    pub chain: &'a Chain,
    /// certificate named by the honest response
    pub cert: &'a Cert,
    /// every certificate issued so far in this world
    pub certs: &'a [Cert],
    /// honest response to another query under the same certificate (same format)
    pub same_root_other: Option<&'a Resp>,
    /// honest response of the same format under another certificate
    pub other_root: Option<&'a Resp>,
    /// honest response of another format for the same beacon
    pub cross: Option<&'a Resp>,
    /// legacy only: honest responses for the two halves of the query
    pub split: Option<(&'a Resp, &'a Resp)>,
}

pub struct Candidate {
    pub class: String,
    pub wire: String,
}

type Proof = MKMapProof<BlockRange>;

fn proofs_of(r: &Resp) -> Vec<String> {
    match r {
        Resp::Legacy(m) => m.certified_transactions.iter().map(|p| p.proof.clone()).collect(),
        Resp::TxV2(m) => m.certified_transactions.iter().map(|p| p.proof.clone()).collect(),
        Resp::BlkV2(m) => m.certified_blocks.iter().map(|p| p.proof.clone()).collect(),
    }
}

fn set_proof(r: &mut Resp, idx: usize, s: String) {
    match r {
        Resp::Legacy(m) => {
            if let Some(p) = m.certified_transactions.get_mut(idx) {
                p.proof = s
            }
        }
        Resp::TxV2(m) => {
            if let Some(p) = m.certified_transactions.as_mut() {
                p.proof = s
            }
        }
        Resp::BlkV2(m) => {
            if let Some(p) = m.certified_blocks.as_mut() {
                p.proof = s
            }
        }
    }
}

fn latest(r: &Resp) -> u64 {
    match r {
        Resp::Legacy(m) => *m.latest_block_number,
        Resp::TxV2(m) => *m.latest_block_number,
        Resp::BlkV2(m) => *m.latest_block_number,
    }
}
fn set_latest(r: &mut Resp, v: u64) {
    match r {
        Resp::Legacy(m) => m.latest_block_number = BlockNumber(v),
        Resp::TxV2(m) => m.latest_block_number = BlockNumber(v),
        Resp::BlkV2(m) => m.latest_block_number = BlockNumber(v),
    }
}
fn offset(r: &Resp) -> Option<u64> {
    match r {
        Resp::Legacy(_) => None,
        Resp::TxV2(m) => Some(*m.security_parameter),
        Resp::BlkV2(m) => Some(*m.security_parameter),
    }
}
fn set_offset(r: &mut Resp, v: u64) {
    match r {
        Resp::Legacy(_) => {}
        Resp::TxV2(m) => m.security_parameter = BlockNumberOffset(v),
        Resp::BlkV2(m) => m.security_parameter = BlockNumberOffset(v),
    }
}

fn proof_value(p: &Proof) -> Value {
    serde_json::to_value(p).unwrap_or(Value::Null)
}
fn value_proof(v: &Value) -> Option<Proof> {
    serde_json::from_value(v.clone()).ok()
}
fn node_value(n: &MKTreeNode) -> Value {
    serde_json::to_value(n).unwrap_or(Value::Null)
}

/// leaves of the ground-truth chain in the block range of `number`, restricted to <= beacon
fn truth_leaves(fmt: Fmt, chain: &Chain, number: u64, beacon: u64) -> Vec<MKTreeNode> {
    let s = range_start(number);
    let mut blocks_l = vec![];
    let mut txs_l = vec![];
    for b in chain.blocks.iter().filter(|b| b.number >= s && b.number < s + RANGE && b.number <= beacon) {
        match fmt {
            Fmt::Legacy => {
                for t in &b.txs {
                    txs_l.push(leaf_legacy(t));
                }
            }
            _ => {
                blocks_l.push(leaf_blk_v2(&blk_part(b)));
                for t in &b.txs {
                    txs_l.push(leaf_tx_v2(&tx_part(b, t)));
                }
            }
        }
    }
    blocks_l.extend(txs_l);
    blocks_l
}

pub fn blk_part(b: &Block) -> CardanoBlockMessagePart {
    CardanoBlockMessagePart::new(b.hash.clone(), BlockNumber(b.number), SlotNumber(b.slot))
}
pub fn tx_part(b: &Block, t: &str) -> CardanoTransactionMessagePart {
    CardanoTransactionMessagePart::new(t.to_string(), BlockNumber(b.number), SlotNumber(b.slot), b.hash.clone())
}

/// an internally consistent proof of `fake` in a forged tree (real leaves of that range + fake)
fn forge(range_of: u64, mut leaves: Vec<MKTreeNode>, fake: &MKTreeNode, extra_ranges: &[(u64, MKTreeNode)]) -> Option<Proof> {
    leaves.push(fake.clone());
    let tree = MKTree::<MKTreeStoreInMemory>::new(&leaves).ok()?;
    let s = range_start(range_of);
    let mut entries: Vec<(BlockRange, MKMapNode<BlockRange, MKTreeStoreInMemory>)> = vec![(BlockRange::from(s..s + RANGE), tree.into())];
    for (n, root) in extra_ranges {
        let s2 = range_start(*n);
        if s2 != s && !entries.iter().any(|(k, _)| k.start == BlockNumber(s2)) {
            entries.push((BlockRange::from(s2..s2 + RANGE), root.clone().into()));
        }
    }
    let map = MKMap::<BlockRange, MKMapNode<BlockRange, MKTreeStoreInMemory>, MKTreeStoreInMemory>::new_from_iter(entries).ok()?;
    map.compute_proof(std::slice::from_ref(fake)).ok()
}

fn flip_hex_char(s: &str, rng: &mut ChaCha20Rng) -> String {
    if s.is_empty() {
        return "0".into();
    }
    let mut b: Vec<u8> = s.as_bytes().to_vec();
    let i = rnd::usize_below(rng, b.len());
    b[i] = if b[i] == b'0' { b'1' } else if b[i] == b'f' { b'e' } else { b'0' };
    String::from_utf8(b).unwrap_or_default()
}

fn some_block_upto<'a>(chain: &'a Chain, beacon: u64, rng: &mut ChaCha20Rng) -> Option<&'a Block> {
    let v = chain.blocks_upto(beacon);
    if v.is_empty() {
        None
    } else {
        Some(&v[rnd::usize_below(rng, v.len())])
    }
}

fn digit_shift(a: u64, b: u64) -> Vec<(u64, u64)> {
    // decimal(a) ++ decimal(b) cut at another place
    let sa = a.to_string();
    let sb = b.to_string();
    let cat = format!("{sa}{sb}");
    let mut out = vec![];
    for cut in 1..cat.len() {
        if cut == sa.len() {
            continue;
        }
        let (x, y) = cat.split_at(cut);
        if (y.len() > 1 && y.starts_with('0')) || (x.len() > 1 && x.starts_with('0')) {
            continue;
        }
        if let (Ok(x), Ok(y)) = (x.parse::<u64>(), y.parse::<u64>()) {
            out.push((x, y));
        }
    }
    out
}

pub fn candidates(honest: &Resp, ctx: &Ctx, rng: &mut ChaCha20Rng) -> Vec<Candidate> {
    let fmt = honest.fmt();
    let mut out: Vec<Candidate> = vec![];
    let mut push = |class: &str, r: Resp| out.push(Candidate { class: class.to_string(), wire: r.to_wire() });
    let beacon = ctx.cert.beacon;
    let chain = ctx.chain;

    push("honest", honest.clone());

    // ---- certificate hash field ------------------------------------------------------------
    {
        let mut r = honest.clone();
        r.set_certificate_hash(&hex_hash(rng));
        push("cert_hash_unknown", r);
        let others: Vec<&Cert> = ctx.certs.iter().filter(|c| c.kind == ctx.cert.kind && c.hash() != ctx.cert.hash()).collect();
        if !others.is_empty() {
            let o = *rnd::pick(rng, &others);
            let mut r = honest.clone();
            r.set_certificate_hash(o.hash());
            push("cert_hash_other_beacon", r);
            let mut r = honest.clone();
            r.set_certificate_hash(o.hash());
            set_latest(&mut r, o.beacon);
            set_offset(&mut r, o.offset);
            push("cert_and_latest_of_other_beacon", r);
            // the other way round: keep the certificate, claim the other certificate's numbers
            let mut r = honest.clone();
            set_latest(&mut r, o.beacon);
            push("latest_of_other_beacon", r);
        }
        let other_kind: Vec<&Cert> = ctx.certs.iter().filter(|c| c.kind != ctx.cert.kind).collect();
        if !other_kind.is_empty() {
            let same_beacon: Vec<&&Cert> = other_kind.iter().filter(|c| c.beacon == beacon).collect();
            let o = if !same_beacon.is_empty() { **rnd::pick(rng, &same_beacon) } else { *rnd::pick(rng, &other_kind) };
            let mut r = honest.clone();
            r.set_certificate_hash(o.hash());
            push("cert_hash_other_kind", r);
        }
    }

    // ---- latest block number / offset ---------------------------------------------------------
    {
        let l = latest(honest);
        for (name, v) in [
            ("latest_plus1", l.wrapping_add(1)),
            ("latest_minus1", l.wrapping_sub(1)),
            ("latest_plus_range", l.wrapping_add(RANGE)),
            ("latest_zero", if l == 0 { 1 } else { 0 }),
            ("latest_range_end", range_start(l) + RANGE - 1 + if range_start(l) + RANGE - 1 == l { RANGE } else { 0 }),
            ("latest_chain_tip", if chain.tip() == l { chain.tip() + 1 } else { chain.tip() }),
            ("latest_u64_max", u64::MAX),
            ("latest_times10", l.wrapping_mul(10)),
        ] {
            let mut r = honest.clone();
            set_latest(&mut r, v);
            push(name, r);
        }
        if let Some(o) = offset(honest) {
            for (name, v) in [
                ("offset_plus1", o.wrapping_add(1)),
                ("offset_minus1", if o == 0 { 2 } else { o - 1 }),
                ("offset_zero", if o == 0 { 1 } else { 0 }),
                ("offset_random", rnd::below(rng, 5000) + if o < 5000 { 5000 } else { 0 }),
                ("offset_u64_max", u64::MAX),
            ] {
                let mut r = honest.clone();
                set_offset(&mut r, v);
                push(name, r);
            }
            let mut r = honest.clone();
            set_latest(&mut r, o);
            set_offset(&mut r, l);
            if o != l {
                push("offset_latest_swapped", r);
            }
            // keep latest + offset (the tip) constant
            let mut r = honest.clone();
            set_latest(&mut r, l.wrapping_sub(1));
            set_offset(&mut r, o.wrapping_add(1));
            push("latest_offset_sum_preserved", r);
            for (x, y) in digit_shift(l, o).into_iter().take(2) {
                let mut r = honest.clone();
                set_latest(&mut r, x);
                set_offset(&mut r, y);
                push("latest_offset_digit_shift", r);
            }
        }
    }

    let hp = proofs_of(honest);
    let has_proof = !hp.is_empty();

    // ---- proof string / structure --------------------------------------------------------------
    if has_proof {
        let idx = rnd::usize_below(rng, hp.len());
        let p0 = &hp[idx];
        {
            let mut r = honest.clone();
            set_proof(&mut r, idx, flip_hex_char(p0, rng));
            push("proof_hex_char_changed", r);
            let mut r = honest.clone();
            set_proof(&mut r, idx, p0[..p0.len() / 2].to_string());
            push("proof_truncated", r);
            let mut r = honest.clone();
            set_proof(&mut r, idx, String::new());
            push("proof_empty", r);
        }
        if let Some(p) = decode_proof(fmt, p0) {
            // the other wire encoding of the same proof
            let other_fmt = if fmt == Fmt::Legacy { Fmt::TxV2 } else { Fmt::Legacy };
            let mut r = honest.clone();
            set_proof(&mut r, idx, encode_proof(other_fmt, &p));
            push("proof_other_wire_encoding", r);

            let pv = proof_value(&p);
            let n_sub = pv["sub_proofs"].as_array().map(|a| a.len()).unwrap_or(0);
            // sub-proofs detached: master proof only
            {
                let mut v = pv.clone();
                v["sub_proofs"] = json!([]);
                if let Some(q) = value_proof(&v) {
                    let mut r = honest.clone();
                    set_proof(&mut r, idx, encode_proof(fmt, &q));
                    push("proof_master_only", r);
                }
            }
            if n_sub > 0 {
                let si = rnd::usize_below(rng, n_sub);
                // one sub-proof removed
                {
                    let mut v = pv.clone();
                    v["sub_proofs"].as_array_mut().unwrap().remove(si);
                    if let Some(q) = value_proof(&v) {
                        let mut r = honest.clone();
                        set_proof(&mut r, idx, encode_proof(fmt, &q));
                        push("proof_one_sub_proof_removed", r);
                    }
                }
                // a sub-proof alone, promoted to be the whole proof
                {
                    let v = pv["sub_proofs"][si][1].clone();
                    if let Some(q) = value_proof(&v) {
                        let mut r = honest.clone();
                        set_proof(&mut r, idx, encode_proof(fmt, &q));
                        push("proof_sub_proof_promoted", r);
                    }
                }
                // key of a sub-proof changed to another block range
                {
                    let mut v = pv.clone();
                    let k = &v["sub_proofs"][si][0];
                    let start = k["inner_range"]["start"].as_u64().unwrap_or(0);
                    let ns = start + RANGE;
                    v["sub_proofs"][si][0] = json!({"inner_range": {"start": ns, "end": ns + RANGE}});
                    if let Some(q) = value_proof(&v) {
                        let mut r = honest.clone();
                        set_proof(&mut r, idx, encode_proof(fmt, &q));
                        push("proof_sub_proof_key_moved", r);
                    }
                }
                // order of the sub-proofs reversed (harmless re-encoding)
                if n_sub > 1 {
                    let mut v = pv.clone();
                    v["sub_proofs"].as_array_mut().unwrap().reverse();
                    if let Some(q) = value_proof(&v) {
                        let mut r = honest.clone();
                        set_proof(&mut r, idx, encode_proof(fmt, &q));
                        push("BENIGN_proof_sub_proofs_reordered", r);
                    }
                }
                // master proof of another honest proof (other root) over this proof's sub-proofs
                if let Some(o) = ctx.other_root {
                    if let Some(op) = proofs_of(o).first().and_then(|s| decode_proof(fmt, s)) {
                        let mut v = pv.clone();
                        v["master_proof"] = proof_value(&op)["master_proof"].clone();
                        if let Some(q) = value_proof(&v) {
                            let mut r = honest.clone();
                            set_proof(&mut r, idx, encode_proof(fmt, &q));
                            push("proof_master_of_other_beacon", r);
                        }
                        // this master, the other proof's sub-proofs
                        let mut v = pv.clone();
                        v["sub_proofs"] = proof_value(&op)["sub_proofs"].clone();
                        if let Some(q) = value_proof(&v) {
                            let mut r = honest.clone();
                            set_proof(&mut r, idx, encode_proof(fmt, &q));
                            push("proof_sub_proofs_of_other_beacon", r);
                        }
                    }
                }
            }
        }
        // proof of another query under the same root, items unchanged
        if let Some(o) = ctx.same_root_other {
            if let Some(op) = proofs_of(o).first() {
                let mut r = honest.clone();
                set_proof(&mut r, idx, op.clone());
                push("proof_of_other_query_same_root", r);
            }
        }
        if let Some(o) = ctx.other_root {
            if let Some(op) = proofs_of(o).first() {
                let mut r = honest.clone();
                set_proof(&mut r, idx, op.clone());
                push("proof_of_other_beacon", r);
            }
        }
        if let Some(o) = ctx.cross {
            if let Some(op) = proofs_of(o).first().and_then(|s| decode_proof(o.fmt(), s)) {
                let mut r = honest.clone();
                set_proof(&mut r, idx, encode_proof(fmt, &op));
                push("proof_of_other_format", r);
            }
        }
    }

    // ---- items ------------------------------------------------------------------------------------
    match honest {
        Resp::Legacy(m) => legacy_items(m, ctx, rng, &mut push),
        Resp::TxV2(m) => txv2_items(m, ctx, rng, &mut push),
        Resp::BlkV2(m) => blkv2_items(m, ctx, rng, &mut push),
    }

    // ---- raw wire edits (types a JSON adversary can send) -------------------------------------------
    {
        let v: Value = serde_json::from_str(&honest.to_wire()).unwrap_or(Value::Null);
        let mut w = v.clone();
        w["latest_block_number"] = json!(latest(honest).to_string());
        out.push(Candidate { class: "wire_latest_as_string".into(), wire: w.to_string() });
        let mut w = v.clone();
        w["latest_block_number"] = json!(-(latest(honest) as i64).abs() - 1);
        out.push(Candidate { class: "wire_latest_negative".into(), wire: w.to_string() });
        let mut w = v.clone();
        w["latest_block_number"] = json!(latest(honest) as f64 + 0.5);
        out.push(Candidate { class: "wire_latest_fraction".into(), wire: w.to_string() });
        // a second latest_block_number key appended to the object text
        let txt = honest.to_wire();
        if let Some(stripped) = txt.strip_suffix('}') {
            out.push(Candidate { class: "wire_latest_key_twice".into(), wire: format!("{stripped},\"latest_block_number\":{}}}", latest(honest) + 1) });
        }
        if fmt != Fmt::Legacy {
            let mut w = v.clone();
            let key = if fmt == Fmt::TxV2 { "certified_transactions" } else { "certified_blocks" };
            w[key] = Value::Null;
            out.push(Candidate { class: "wire_certified_null".into(), wire: w.to_string() });
        }
    }
    let _ = beacon;
    out
}

// =================================================================================================
// legacy transaction-hash sets

fn legacy_items(
    m: &mithril_common::messages::CardanoTransactionsProofsMessage,
    ctx: &Ctx,
    rng: &mut ChaCha20Rng,
    push: &mut dyn FnMut(&str, Resp),
) {
    let chain = ctx.chain;
    let beacon = ctx.cert.beacon;
    let wrap = |x: &mithril_common::messages::CardanoTransactionsProofsMessage| Resp::Legacy(x.clone());
    // nothing certified at all
    {
        let mut r = m.clone();
        let moved: Vec<String> = r.certified_transactions.iter().flat_map(|p| p.transactions_hashes.clone()).collect();
        r.non_certified_transactions.extend(moved);
        r.certified_transactions.clear();
        if !m.certified_transactions.is_empty() {
            push("BENIGN_all_moved_to_non_certified", wrap(&r));
        }
    }
    // a set proof with hashes but a proof forged from scratch, for a response without any proof
    let fake = hex_hash(rng);
    let place = some_block_upto(chain, beacon, rng).map(|b| b.number).unwrap_or(beacon);
    let forged = forge(place, truth_leaves(Fmt::Legacy, chain, place, beacon), &leaf_legacy(&fake), &[]);
    if let Some(fp) = &forged {
        let mut r = m.clone();
        r.certified_transactions.push(CardanoTransactionsSetProofMessagePart { transactions_hashes: vec![fake.clone()], proof: encode_proof(Fmt::Legacy, fp) });
        push(if m.certified_transactions.is_empty() { "forged_set_proof_alone" } else { "two_parts_different_roots_honest_first" }, wrap(&r));
        if !m.certified_transactions.is_empty() {
            let mut r = m.clone();
            r.certified_transactions.insert(0, CardanoTransactionsSetProofMessagePart { transactions_hashes: vec![fake.clone()], proof: encode_proof(Fmt::Legacy, fp) });
            push("two_parts_different_roots_forged_first", wrap(&r));
            // forged part with no hash at all in the middle of honest ones
            let mut r = m.clone();
            r.certified_transactions.push(CardanoTransactionsSetProofMessagePart { transactions_hashes: vec![], proof: encode_proof(Fmt::Legacy, fp) });
            push("two_parts_different_roots_forged_part_empty", wrap(&r));
            // forged proof replaces the honest one, honest hashes kept
            let mut r = m.clone();
            r.certified_transactions[0].proof = encode_proof(Fmt::Legacy, fp);
            push("proof_forged_whole_items_kept", wrap(&r));
            // forged proof and the fake item only
            let mut r = m.clone();
            r.certified_transactions = vec![CardanoTransactionsSetProofMessagePart { transactions_hashes: vec![fake.clone()], proof: encode_proof(Fmt::Legacy, fp) }];
            push("proof_forged_whole_fake_item", wrap(&r));
        }
    }
    // an ADDED part listing a never-certified hash with a character-for-character copy of a genuine
    // part's proof (and the same for a duplicated genuine part carrying an extra fake hash)
    if let Some(p0) = m.certified_transactions.first() {
        for (class, pos_last) in [("added_part_fake_hash_with_copy_of_genuine_proof_last", true), ("added_part_fake_hash_with_copy_of_genuine_proof_first", false)] {
            let mut r = m.clone();
            let part = CardanoTransactionsSetProofMessagePart { transactions_hashes: vec![fake.clone()], proof: p0.proof.clone() };
            if pos_last {
                r.certified_transactions.push(part);
            } else {
                r.certified_transactions.insert(0, part);
            }
            push(class, wrap(&r));
        }
        let mut r = m.clone();
        let mut part = p0.clone();
        part.transactions_hashes.push(fake.clone());
        r.certified_transactions.push(part);
        push("added_part_copy_of_genuine_part_plus_fake_hash", wrap(&r));
    }
    // honest parts of another certificate mixed in
    if let Some(Resp::Legacy(o)) = ctx.other_root {
        if let (Some(op), false) = (o.certified_transactions.first(), m.certified_transactions.is_empty()) {
            let mut r = m.clone();
            r.certified_transactions.push(op.clone());
            push("two_parts_other_beacon_second", wrap(&r));
            let mut r = m.clone();
            r.certified_transactions.insert(0, op.clone());
            push("two_parts_other_beacon_first", wrap(&r));
        }
    }
    // honest split in two set proofs under the same root, and the proofs swapped between them
    if let Some((Resp::Legacy(a), Resp::Legacy(b))) = ctx.split {
        if let (Some(pa), Some(pb)) = (a.certified_transactions.first(), b.certified_transactions.first()) {
            let mut r = m.clone();
            r.certified_transactions = vec![pa.clone(), pb.clone()];
            push("BENIGN_split_in_two_set_proofs", wrap(&r));
            let mut r = m.clone();
            r.certified_transactions = vec![
                CardanoTransactionsSetProofMessagePart { transactions_hashes: pa.transactions_hashes.clone(), proof: pb.proof.clone() },
                CardanoTransactionsSetProofMessagePart { transactions_hashes: pb.transactions_hashes.clone(), proof: pa.proof.clone() },
            ];
            push("parts_proofs_swapped", wrap(&r));
            // second part carries a forged sub-tree
        }
    }
    if let Some(Resp::Legacy(o)) = ctx.same_root_other {
        if let (Some(po), Some(pm)) = (o.certified_transactions.first(), m.certified_transactions.first()) {
            // items of the other query appended to this proof
            let mut r = m.clone();
            let extra: Vec<String> = po.transactions_hashes.iter().filter(|h| !pm.transactions_hashes.contains(h)).cloned().collect();
            if !extra.is_empty() {
                r.certified_transactions[0].transactions_hashes.extend(extra);
                push("item_add_true_proven_elsewhere", wrap(&r));
            }
        }
    }
    let Some(part0) = m.certified_transactions.first() else {
        // no proof in the honest response: claim the queried (absent) hashes without proof material
        if let Some(h) = m.non_certified_transactions.first() {
            if let Some(Resp::Legacy(o)) = ctx.same_root_other {
                if let Some(po) = o.certified_transactions.first() {
                    let mut r = m.clone();
                    r.non_certified_transactions.retain(|x| x != h);
                    r.certified_transactions = vec![CardanoTransactionsSetProofMessagePart { transactions_hashes: vec![h.clone()], proof: po.proof.clone() }];
                    push("item_non_certified_to_certified", wrap(&r));
                }
            }
        }
        return;
    };
    let n_items = part0.transactions_hashes.len();
    let add = |h: String| {
        let mut r = m.clone();
        r.certified_transactions[0].transactions_hashes.push(h);
        wrap(&r)
    };
    push("item_add_fake", add(hex_hash(rng)));
    {
        let mut r = m.clone();
        r.certified_transactions[0].transactions_hashes.insert(0, hex_hash(rng));
        push("item_add_fake_first", wrap(&r));
    }
    if let Some(h) = m.non_certified_transactions.first() {
        let mut r = m.clone();
        r.non_certified_transactions.retain(|x| x != h);
        r.certified_transactions[0].transactions_hashes.push(h.clone());
        push("item_non_certified_to_certified", wrap(&r));
    }
    // a real transaction of another block range, not covered by the proof
    {
        let covered: Vec<u64> = part0.transactions_hashes.iter().filter_map(|h| chain.block_of_tx(h)).map(|b| range_start(b.number)).collect();
        let cands: Vec<&Block> = chain.blocks_upto(beacon).iter().filter(|b| !b.txs.is_empty() && !covered.contains(&range_start(b.number))).collect();
        if !cands.is_empty() {
            let b = *rnd::pick(rng, &cands);
            push("item_add_true_unproven", add(b.txs[0].clone()));
        }
        let after: Vec<&Block> = chain.blocks_after(beacon).iter().filter(|b| !b.txs.is_empty()).collect();
        if !after.is_empty() {
            let b = *rnd::pick(rng, &after);
            push("item_add_beyond_beacon", add(b.txs[0].clone()));
        }
        // a block hash passed as a transaction hash
        if let Some(b) = some_block_upto(chain, beacon, rng) {
            push("item_add_block_hash_as_transaction", add(b.hash.clone()));
        }
    }
    if n_items > 0 {
        let i = rnd::usize_below(rng, n_items);
        let h = part0.transactions_hashes[i].clone();
        let ren = |nh: String| {
            let mut r = m.clone();
            r.certified_transactions[0].transactions_hashes[i] = nh;
            wrap(&r)
        };
        push("item_rename_random", ren(hex_hash(rng)));
        push("item_rename_one_char", ren(flip_hex_char(&h, rng)));
        if h.to_uppercase() != h {
            push("item_rename_uppercase", ren(h.to_uppercase()));
        }
        push("item_rename_prefix", ren(h[..h.len() - 1].to_string()));
        push("item_rename_suffix_added", ren(format!("{h}0")));
        push("item_rename_whitespace", ren(format!("{h} ")));
        // the v2 leaf string of the same transaction passed as a legacy hash
        if let Some(b) = chain.block_of_tx(&h) {
            push("item_rename_v2_leaf_string", ren(format!("Tx/{}/{}/{}/{}", h, b.hash, b.number, b.slot)));
        }
        {
            let mut r = m.clone();
            r.certified_transactions[0].transactions_hashes.remove(i);
            r.non_certified_transactions.push(h.clone());
            push("BENIGN_item_certified_to_non_certified", wrap(&r));
        }
        {
            let mut r = m.clone();
            r.certified_transactions[0].transactions_hashes.push(h.clone());
            push("BENIGN_item_duplicated", wrap(&r));
        }
        {
            let mut r = m.clone();
            r.certified_transactions[0].transactions_hashes.clear();
            push("BENIGN_items_cleared_proof_kept", wrap(&r));
        }
        // honest master, one sub-tree forged so that it contains a fake transaction
        if let (Some(b), Some(p)) = (chain.block_of_tx(&h), decode_proof(Fmt::Legacy, &part0.proof)) {
            let fake = hex_hash(rng);
            forged_sub_tree_variants(Fmt::Legacy, &p, b.number, truth_leaves(Fmt::Legacy, chain, b.number, beacon), &leaf_legacy(&fake), &mut |class, proof| {
                let mut r = m.clone();
                r.certified_transactions[0].proof = encode_proof(Fmt::Legacy, &proof);
                r.certified_transactions[0].transactions_hashes.push(fake.clone());
                push(class, wrap(&r));
            });
        }
    }
}

/// structural forgeries around one block range of an honest proof; `emit(class, proof)`
fn forged_sub_tree_variants(
    _fmt: Fmt,
    honest: &Proof,
    number_in_range: u64,
    range_leaves: Vec<MKTreeNode>,
    fake_leaf: &MKTreeNode,
    emit: &mut dyn FnMut(&str, Proof),
) {
    let pv = proof_value(honest);
    let s = range_start(number_in_range);
    let subs = pv["sub_proofs"].as_array().cloned().unwrap_or_default();
    let pos = subs.iter().position(|e| e[0]["inner_range"]["start"].as_u64() == Some(s));
    let Some(forged) = forge(number_in_range, range_leaves, fake_leaf, &[]) else { return };
    let fv = proof_value(&forged);
    let forged_sub = fv["sub_proofs"][0][1].clone();
    if let Some(pos) = pos {
        // honest master proof, forged sub-proof under the honest key (sub-proof detached from master)
        let mut v = pv.clone();
        v["sub_proofs"][pos][1] = forged_sub.clone();
        if let Some(q) = value_proof(&v) {
            emit("proof_sub_tree_forged_master_kept", q);
        }
        // forged sub-proof appended next to the honest one under the same key
        let mut v = pv.clone();
        v["sub_proofs"].as_array_mut().unwrap().push(json!([subs[pos][0].clone(), forged_sub.clone()]));
        if let Some(q) = value_proof(&v) {
            emit("proof_sub_tree_forged_appended_same_key", q);
        }
        // fake leaf injected in the leaf list of the honest sub-proof
        let mut v = pv.clone();
        if let Some(leaves) = v["sub_proofs"][pos][1]["master_proof"]["inner_leaves"].as_array_mut() {
            let p = leaves.len();
            leaves.push(json!([p + 1000, node_value(fake_leaf)]));
            if let Some(q) = value_proof(&v) {
                emit("proof_leaf_injected_in_sub_proof", q);
            }
        }
        // fake leaf listed at the POSITION of a genuine leaf (the tree verification keeps one entry
        // per position, membership answers from the whole list): every target leaf x every place
        // in the list - right before / right after the genuine entry, or apart from it
        for (level, path) in [("sub_proof", Some(pos)), ("master_proof", None)] {
            let list = match path {
                Some(p) => pv["sub_proofs"][p][1]["master_proof"]["inner_leaves"].clone(),
                None => pv["master_proof"]["inner_leaves"].clone(),
            };
            let Some(list) = list.as_array().cloned() else { continue };
            if list.is_empty() || list.len() > 8 {
                continue;
            }
            for t in 0..list.len() {
                for ins in 0..=list.len() {
                    let mut l = list.clone();
                    l.insert(ins, json!([list[t][0].clone(), node_value(fake_leaf)]));
                    let mut v = pv.clone();
                    match path {
                        Some(p) => v["sub_proofs"][p][1]["master_proof"]["inner_leaves"] = Value::Array(l),
                        None => v["master_proof"]["inner_leaves"] = Value::Array(l),
                    }
                    let where_ = if ins == t || ins == t + 1 { "next_to_the_genuine_entry" } else { "apart_from_the_genuine_entry" };
                    if let Some(q) = value_proof(&v) {
                        emit(&format!("proof_leaf_injected_at_an_occupied_position_in_{level}_{where_}"), q);
                    }
                }
            }
        }
        // a leaf of the honest sub-proof replaced by the fake leaf
        let mut v = pv.clone();
        if let Some(leaves) = v["sub_proofs"][pos][1]["master_proof"]["inner_leaves"].as_array_mut() {
            if let Some(first) = leaves.first_mut() {
                first[1] = node_value(fake_leaf);
                if let Some(q) = value_proof(&v) {
                    emit("proof_leaf_replaced_in_sub_proof", q);
                }
            }
        }
        // fake leaf injected in the MASTER proof's leaf list (contains() also looks there)
        let mut v = pv.clone();
        if let Some(leaves) = v["master_proof"]["inner_leaves"].as_array_mut() {
            let p = leaves.len();
            leaves.push(json!([p + 1000, node_value(fake_leaf)]));
            if let Some(q) = value_proof(&v) {
                emit("proof_leaf_injected_in_master_proof", q);
            }
        }
        // the forged sub-proof nested INSIDE the honest sub-proof (deeper level)
        let mut v = pv.clone();
        v["sub_proofs"][pos][1]["sub_proofs"] = json!([[subs[pos][0].clone(), forged_sub.clone()]]);
        if let Some(q) = value_proof(&v) {
            emit("proof_sub_tree_forged_nested_deeper", q);
        }
    }
    // forged sub-proof appended under a new key
    let mut v = pv.clone();
    if let Some(a) = v["sub_proofs"].as_array_mut() {
        a.push(json!([{"inner_range": {"start": s + 15 * 1000, "end": s + 15 * 1000 + RANGE}}, forged_sub.clone()]));
        if let Some(q) = value_proof(&v) {
            emit("proof_sub_tree_forged_appended_new_key", q);
        }
    }
    // forged master over the honest sub-roots of the other ranges + the forged sub-tree
    let honest_other: Vec<(u64, MKTreeNode)> = subs
        .iter()
        .filter_map(|e| {
            let st = e[0]["inner_range"]["start"].as_u64()?;
            let p: Proof = serde_json::from_value(e[1].clone()).ok()?;
            Some((st, p.compute_root()))
        })
        .collect();
    if let Some(full) = forge(number_in_range, vec![fake_leaf.clone()], fake_leaf, &honest_other) {
        emit("proof_forged_master_over_honest_sub_roots", full);
    }
    emit("proof_forged_whole", forged);
}

// =================================================================================================
// v2 transactions

fn txv2_items(
    m: &mithril_common::messages::CardanoTransactionsProofsV2Message,
    ctx: &Ctx,
    rng: &mut ChaCha20Rng,
    push: &mut dyn FnMut(&str, Resp),
) {
    let chain = ctx.chain;
    let beacon = ctx.cert.beacon;
    let wrap = |x: &mithril_common::messages::CardanoTransactionsProofsV2Message| Resp::TxV2(x.clone());
    let fake_in = |b: &Block, rng: &mut ChaCha20Rng| CardanoTransactionMessagePart::new(hex_hash(rng), BlockNumber(b.number), SlotNumber(b.slot), b.hash.clone());

    let Some(part) = &m.certified_transactions else {
        // nothing certified: fabricate a certified section
        if let Some(b) = some_block_upto(chain, beacon, rng) {
            let fake = fake_in(b, rng);
            if let Some(fp) = forge(b.number, truth_leaves(Fmt::TxV2, chain, b.number, beacon), &leaf_tx_v2(&fake), &[]) {
                let mut r = m.clone();
                r.certified_transactions = Some(MkSetProofMessagePart { items: vec![fake], proof: encode_proof(Fmt::TxV2, &fp) });
                push("forged_set_proof_alone", wrap(&r));
            }
        }
        if let (Some(h), Some(Resp::TxV2(o))) = (m.non_certified_transactions.first(), ctx.same_root_other) {
            if let (Some(po), Some(b)) = (&o.certified_transactions, some_block_upto(chain, beacon, rng)) {
                let mut r = m.clone();
                r.non_certified_transactions.retain(|x| x != h);
                r.certified_transactions = Some(MkSetProofMessagePart {
                    items: vec![CardanoTransactionMessagePart::new(h.clone(), BlockNumber(b.number), SlotNumber(b.slot), b.hash.clone())],
                    proof: po.proof.clone(),
                });
                push("item_non_certified_to_certified", wrap(&r));
            }
        }
        return;
    };
    {
        let mut r = m.clone();
        r.non_certified_transactions.extend(part.items.iter().map(|t| t.transaction_hash.clone()));
        r.certified_transactions = None;
        push("BENIGN_all_moved_to_non_certified", wrap(&r));
    }
    let add = |t: CardanoTransactionMessagePart| {
        let mut r = m.clone();
        r.certified_transactions.as_mut().unwrap().items.push(t);
        wrap(&r)
    };
    if let Some(b) = some_block_upto(chain, beacon, rng) {
        push("item_add_fake", add(fake_in(b, rng)));
        let mut r = m.clone();
        r.certified_transactions.as_mut().unwrap().items.insert(0, fake_in(b, rng));
        push("item_add_fake_first", wrap(&r));
        if let Some(h) = m.non_certified_transactions.first() {
            let mut r = m.clone();
            r.non_certified_transactions.retain(|x| x != h);
            r.certified_transactions.as_mut().unwrap().items.push(CardanoTransactionMessagePart::new(h.clone(), BlockNumber(b.number), SlotNumber(b.slot), b.hash.clone()));
            push("item_non_certified_to_certified", wrap(&r));
        }
    }
    {
        let covered: Vec<u64> = part.items.iter().map(|t| range_start(*t.block_number)).collect();
        let cands: Vec<&Block> = chain.blocks_upto(beacon).iter().filter(|b| !b.txs.is_empty() && !covered.contains(&range_start(b.number))).collect();
        if !cands.is_empty() {
            let b = *rnd::pick(rng, &cands);
            push("item_add_true_unproven", add(tx_part(b, &b.txs[0])));
        }
        // a real transaction of a covered range that the proof does not open
        let same: Vec<(&Block, &String)> = chain
            .blocks_upto(beacon)
            .iter()
            .filter(|b| covered.contains(&range_start(b.number)))
            .flat_map(|b| b.txs.iter().map(move |t| (b, t)))
            .filter(|(_, t)| !part.items.iter().any(|i| &i.transaction_hash == *t))
            .collect();
        if !same.is_empty() {
            let (b, t) = *rnd::pick(rng, &same);
            push("item_add_true_same_range_unproven", add(tx_part(b, t)));
        }
        let after: Vec<&Block> = chain.blocks_after(beacon).iter().filter(|b| !b.txs.is_empty()).collect();
        if !after.is_empty() {
            let b = *rnd::pick(rng, &after);
            push("item_add_beyond_beacon", add(tx_part(b, &b.txs[0])));
        }
    }
    if let Some(Resp::TxV2(o)) = ctx.same_root_other {
        if let Some(po) = &o.certified_transactions {
            let extra: Vec<_> = po.items.iter().filter(|t| !part.items.contains(t)).cloned().collect();
            if !extra.is_empty() {
                let mut r = m.clone();
                r.certified_transactions.as_mut().unwrap().items.extend(extra);
                push("item_add_true_proven_elsewhere", wrap(&r));
            }
        }
    }
    // the items of a block proof presented as transactions / the proof of the block response
    if let Some(Resp::BlkV2(o)) = ctx.cross {
        if let Some(po) = &o.certified_blocks {
            let mut r = m.clone();
            r.certified_transactions.as_mut().unwrap().proof = po.proof.clone();
            push("proof_of_block_response", wrap(&r));
            let mut r = m.clone();
            r.certified_transactions = Some(MkSetProofMessagePart {
                items: po.items.iter().map(|b| CardanoTransactionMessagePart::new(b.block_hash.clone(), b.block_number, b.slot_number, b.block_hash.clone())).collect(),
                proof: po.proof.clone(),
            });
            push("items_blocks_presented_as_transactions", wrap(&r));
        }
    }
    let n = part.items.len();
    if n == 0 {
        return;
    }
    let i = rnd::usize_below(rng, n);
    let it = part.items[i].clone();
    let edit = |f: &dyn Fn(&mut CardanoTransactionMessagePart)| {
        let mut r = m.clone();
        f(&mut r.certified_transactions.as_mut().unwrap().items[i]);
        wrap(&r)
    };
    let rh = hex_hash(rng);
    push("item_rename_random", edit(&|t| t.transaction_hash = rh.clone()));
    let fh = flip_hex_char(&it.transaction_hash, rng);
    push("item_rename_one_char", edit(&|t| t.transaction_hash = fh.clone()));
    push("item_rename_uppercase", edit(&|t| t.transaction_hash = t.transaction_hash.to_uppercase()));
    push("item_rename_prefix", edit(&|t| {
        t.transaction_hash.pop();
    }));
    // moved to another block
    let others: Vec<&Block> = chain.blocks.iter().filter(|b| b.hash != it.block_hash).collect();
    if !others.is_empty() {
        let ob = *rnd::pick(rng, &others);
        push("item_moved_block_hash_only", edit(&|t| t.block_hash = ob.hash.clone()));
        push("item_moved_block_all_fields", edit(&|t| {
            t.block_hash = ob.hash.clone();
            t.block_number = BlockNumber(ob.number);
            t.slot_number = SlotNumber(ob.slot);
        }));
        push("item_moved_number_and_slot_only", edit(&|t| {
            t.block_number = BlockNumber(ob.number);
            t.slot_number = SlotNumber(ob.slot);
        }));
        // another item of the same response takes this one's block
        if n > 1 {
            let j = (i + 1) % n;
            let oj = part.items[j].clone();
            if oj.block_hash != it.block_hash {
                let mut r = m.clone();
                let items = &mut r.certified_transactions.as_mut().unwrap().items;
                items[i].block_hash = oj.block_hash.clone();
                items[i].block_number = oj.block_number;
                items[i].slot_number = oj.slot_number;
                items[j].block_hash = it.block_hash.clone();
                items[j].block_number = it.block_number;
                items[j].slot_number = it.slot_number;
                push("items_blocks_swapped", wrap(&r));
                let mut r = m.clone();
                let items = &mut r.certified_transactions.as_mut().unwrap().items;
                let hi = items[i].transaction_hash.clone();
                items[i].transaction_hash = items[j].transaction_hash.clone();
                items[j].transaction_hash = hi;
                push("items_hashes_swapped", wrap(&r));
            }
        }
    }
    push("item_block_hash_one_char", edit(&|t| t.block_hash = flip_hex_char(&it.block_hash, &mut ChaCha20Rng::from_seed_u64(*it.slot_number))));
    push("item_slot_plus1", edit(&|t| t.slot_number = SlotNumber(*t.slot_number + 1)));
    push("item_slot_minus1", edit(&|t| t.slot_number = SlotNumber(t.slot_number.wrapping_sub(1))));
    push("item_slot_zero", edit(&|t| t.slot_number = SlotNumber(if *t.slot_number == 0 { 1 } else { 0 })));
    push("item_number_plus1", edit(&|t| t.block_number = BlockNumber(*t.block_number + 1)));
    push("item_number_minus1", edit(&|t| t.block_number = BlockNumber(t.block_number.wrapping_sub(1))));
    push("item_number_plus_range", edit(&|t| t.block_number = BlockNumber(*t.block_number + RANGE)));
    if *it.block_number != *it.slot_number {
        push("item_number_slot_swapped", edit(&|t| {
            let n = *t.block_number;
            t.block_number = BlockNumber(*t.slot_number);
            t.slot_number = SlotNumber(n);
        }));
    }
    for (x, y) in digit_shift(*it.block_number, *it.slot_number).into_iter().take(2) {
        push("item_number_slot_digit_shift", edit(&|t| {
            t.block_number = BlockNumber(x);
            t.slot_number = SlotNumber(y);
        }));
    }
    // separator games on the leaf string Tx/<hash>/<block hash>/<n>/<slot>
    push("item_separator_hash_absorbs_block_hash", edit(&|t| {
        t.transaction_hash = format!("{}/{}", it.transaction_hash, it.block_hash);
        t.block_hash = String::new();
    }));
    push("item_separator_block_hash_absorbs_number", edit(&|t| {
        t.block_hash = format!("{}/{}", it.block_hash, *it.block_number);
        t.block_number = it.block_number;
    }));
    push("item_separator_hash_moved_into_block_hash", edit(&|t| {
        t.transaction_hash = String::new();
        t.block_hash = format!("{}/{}", it.transaction_hash, it.block_hash);
    }));
    {
        let mut r = m.clone();
        let items = &mut r.certified_transactions.as_mut().unwrap().items;
        let t = items.remove(i);
        r.non_certified_transactions.push(t.transaction_hash);
        push("BENIGN_item_certified_to_non_certified", wrap(&r));
        let mut r = m.clone();
        r.certified_transactions.as_mut().unwrap().items.push(it.clone());
        push("BENIGN_item_duplicated", wrap(&r));
        let mut r = m.clone();
        r.certified_transactions.as_mut().unwrap().items.clear();
        push("BENIGN_items_cleared_proof_kept", wrap(&r));
    }
    if let Some(p) = decode_proof(Fmt::TxV2, &part.proof) {
        if let Some(b) = chain.block_of_tx(&it.transaction_hash) {
            let fake = fake_in(b, rng);
            forged_sub_tree_variants(Fmt::TxV2, &p, b.number, truth_leaves(Fmt::TxV2, chain, b.number, beacon), &leaf_tx_v2(&fake), &mut |class, proof| {
                let mut r = m.clone();
                let c = r.certified_transactions.as_mut().unwrap();
                c.proof = encode_proof(Fmt::TxV2, &proof);
                c.items.push(fake.clone());
                push(class, wrap(&r));
            });
            // forged proof, honest items kept
            if let Some(fp) = forge(b.number, truth_leaves(Fmt::TxV2, chain, b.number, beacon), &leaf_tx_v2(&fake), &[]) {
                let mut r = m.clone();
                r.certified_transactions.as_mut().unwrap().proof = encode_proof(Fmt::TxV2, &fp);
                push("proof_forged_whole_items_kept", wrap(&r));
                let mut r = m.clone();
                r.certified_transactions = Some(MkSetProofMessagePart { items: vec![fake.clone()], proof: encode_proof(Fmt::TxV2, &fp) });
                push("proof_forged_whole_fake_item", wrap(&r));
            }
        }
    }
}

// =================================================================================================
// v2 blocks

fn blkv2_items(
    m: &mithril_common::messages::CardanoBlocksProofsMessage,
    ctx: &Ctx,
    rng: &mut ChaCha20Rng,
    push: &mut dyn FnMut(&str, Resp),
) {
    let chain = ctx.chain;
    let beacon = ctx.cert.beacon;
    let wrap = |x: &mithril_common::messages::CardanoBlocksProofsMessage| Resp::BlkV2(x.clone());
    let fake_near = |b: &Block, rng: &mut ChaCha20Rng| CardanoBlockMessagePart::new(hex_hash(rng), BlockNumber(b.number), SlotNumber(b.slot));

    let Some(part) = &m.certified_blocks else {
        if let Some(b) = some_block_upto(chain, beacon, rng) {
            let fake = fake_near(b, rng);
            if let Some(fp) = forge(b.number, truth_leaves(Fmt::BlkV2, chain, b.number, beacon), &leaf_blk_v2(&fake), &[]) {
                let mut r = m.clone();
                r.certified_blocks = Some(MkSetProofMessagePart { items: vec![fake], proof: encode_proof(Fmt::BlkV2, &fp) });
                push("forged_set_proof_alone", wrap(&r));
            }
        }
        if let (Some(h), Some(Resp::BlkV2(o))) = (m.non_certified_blocks.first(), ctx.same_root_other) {
            if let (Some(po), Some(b)) = (&o.certified_blocks, some_block_upto(chain, beacon, rng)) {
                let mut r = m.clone();
                r.non_certified_blocks.retain(|x| x != h);
                r.certified_blocks = Some(MkSetProofMessagePart { items: vec![CardanoBlockMessagePart::new(h.clone(), BlockNumber(b.number), SlotNumber(b.slot))], proof: po.proof.clone() });
                push("item_non_certified_to_certified", wrap(&r));
            }
        }
        return;
    };
    {
        let mut r = m.clone();
        r.non_certified_blocks.extend(part.items.iter().map(|t| t.block_hash.clone()));
        r.certified_blocks = None;
        push("BENIGN_all_moved_to_non_certified", wrap(&r));
    }
    let add = |t: CardanoBlockMessagePart| {
        let mut r = m.clone();
        r.certified_blocks.as_mut().unwrap().items.push(t);
        wrap(&r)
    };
    if let Some(b) = some_block_upto(chain, beacon, rng) {
        push("item_add_fake", add(fake_near(b, rng)));
        let mut r = m.clone();
        r.certified_blocks.as_mut().unwrap().items.insert(0, fake_near(b, rng));
        push("item_add_fake_first", wrap(&r));
        // a block number never produced (gap of the sparse chain)
        let gap = (chain.first()..=beacon).find(|n| !chain.blocks.iter().any(|b| b.number == *n));
        if let Some(g) = gap {
            push("item_add_fake_in_gap", add(CardanoBlockMessagePart::new(hex_hash(rng), BlockNumber(g), SlotNumber(b.slot + 1))));
        }
        if let Some(h) = m.non_certified_blocks.first() {
            let mut r = m.clone();
            r.non_certified_blocks.retain(|x| x != h);
            r.certified_blocks.as_mut().unwrap().items.push(CardanoBlockMessagePart::new(h.clone(), BlockNumber(b.number), SlotNumber(b.slot)));
            push("item_non_certified_to_certified", wrap(&r));
        }
    }
    {
        let covered: Vec<u64> = part.items.iter().map(|t| range_start(*t.block_number)).collect();
        let cands: Vec<&Block> = chain.blocks_upto(beacon).iter().filter(|b| !covered.contains(&range_start(b.number))).collect();
        if !cands.is_empty() {
            push("item_add_true_unproven", add(blk_part(*rnd::pick(rng, &cands))));
        }
        let same: Vec<&Block> = chain
            .blocks_upto(beacon)
            .iter()
            .filter(|b| covered.contains(&range_start(b.number)) && !part.items.iter().any(|i| i.block_hash == b.hash))
            .collect();
        if !same.is_empty() {
            push("item_add_true_same_range_unproven", add(blk_part(*rnd::pick(rng, &same))));
        }
        let after = chain.blocks_after(beacon);
        if !after.is_empty() {
            push("item_add_beyond_beacon", add(blk_part(&after[rnd::usize_below(rng, after.len())])));
        }
    }
    if let Some(Resp::BlkV2(o)) = ctx.same_root_other {
        if let Some(po) = &o.certified_blocks {
            let extra: Vec<_> = po.items.iter().filter(|t| !part.items.contains(t)).cloned().collect();
            if !extra.is_empty() {
                let mut r = m.clone();
                r.certified_blocks.as_mut().unwrap().items.extend(extra);
                push("item_add_true_proven_elsewhere", wrap(&r));
            }
        }
    }
    if let Some(Resp::TxV2(o)) = ctx.cross {
        if let Some(po) = &o.certified_transactions {
            let mut r = m.clone();
            r.certified_blocks.as_mut().unwrap().proof = po.proof.clone();
            push("proof_of_transaction_response", wrap(&r));
            // the blocks of proven transactions claimed as proven blocks (true blocks, but the proof opens only the transactions)
            let mut r = m.clone();
            r.certified_blocks = Some(MkSetProofMessagePart {
                items: po.items.iter().map(|t| CardanoBlockMessagePart::new(t.block_hash.clone(), t.block_number, t.slot_number)).collect(),
                proof: po.proof.clone(),
            });
            push("items_blocks_of_proven_transactions", wrap(&r));
            // transaction hashes claimed as block hashes
            let mut r = m.clone();
            r.certified_blocks = Some(MkSetProofMessagePart {
                items: po.items.iter().map(|t| CardanoBlockMessagePart::new(t.transaction_hash.clone(), t.block_number, t.slot_number)).collect(),
                proof: po.proof.clone(),
            });
            push("items_transactions_presented_as_blocks", wrap(&r));
        }
    }
    let n = part.items.len();
    if n == 0 {
        return;
    }
    let i = rnd::usize_below(rng, n);
    let it = part.items[i].clone();
    let edit = |f: &dyn Fn(&mut CardanoBlockMessagePart)| {
        let mut r = m.clone();
        f(&mut r.certified_blocks.as_mut().unwrap().items[i]);
        wrap(&r)
    };
    let rh = hex_hash(rng);
    push("item_rename_random", edit(&|t| t.block_hash = rh.clone()));
    let fh = flip_hex_char(&it.block_hash, rng);
    push("item_rename_one_char", edit(&|t| t.block_hash = fh.clone()));
    push("item_rename_uppercase", edit(&|t| t.block_hash = t.block_hash.to_uppercase()));
    push("item_rename_prefix", edit(&|t| {
        t.block_hash.pop();
    }));
    let others: Vec<&Block> = chain.blocks.iter().filter(|b| b.hash != it.block_hash).collect();
    if !others.is_empty() {
        let ob = *rnd::pick(rng, &others);
        push("item_moved_number_and_slot_only", edit(&|t| {
            t.block_number = BlockNumber(ob.number);
            t.slot_number = SlotNumber(ob.slot);
        }));
        push("item_moved_hash_of_other_block", edit(&|t| t.block_hash = ob.hash.clone()));
    }
    if n > 1 {
        let j = (i + 1) % n;
        let mut r = m.clone();
        let items = &mut r.certified_blocks.as_mut().unwrap().items;
        let hi = items[i].block_hash.clone();
        items[i].block_hash = items[j].block_hash.clone();
        items[j].block_hash = hi;
        push("items_hashes_swapped", wrap(&r));
    }
    push("item_slot_plus1", edit(&|t| t.slot_number = SlotNumber(*t.slot_number + 1)));
    push("item_slot_minus1", edit(&|t| t.slot_number = SlotNumber(t.slot_number.wrapping_sub(1))));
    push("item_slot_zero", edit(&|t| t.slot_number = SlotNumber(if *t.slot_number == 0 { 1 } else { 0 })));
    push("item_number_plus1", edit(&|t| t.block_number = BlockNumber(*t.block_number + 1)));
    push("item_number_minus1", edit(&|t| t.block_number = BlockNumber(t.block_number.wrapping_sub(1))));
    push("item_number_plus_range", edit(&|t| t.block_number = BlockNumber(*t.block_number + RANGE)));
    if *it.block_number != *it.slot_number {
        push("item_number_slot_swapped", edit(&|t| {
            let n = *t.block_number;
            t.block_number = BlockNumber(*t.slot_number);
            t.slot_number = SlotNumber(n);
        }));
    }
    for (x, y) in digit_shift(*it.block_number, *it.slot_number).into_iter().take(2) {
        push("item_number_slot_digit_shift", edit(&|t| {
            t.block_number = BlockNumber(x);
            t.slot_number = SlotNumber(y);
        }));
    }
    push("item_separator_block_hash_absorbs_number", edit(&|t| t.block_hash = format!("{}/{}", it.block_hash, *it.block_number)));
    // a transaction leaf string squeezed into the block hash: Block/<x>/n/s can never equal Tx/...
    if let Some(b) = chain.block_by_hash(&it.block_hash) {
        if let Some(t0) = b.txs.first() {
            let s = format!("{}/{}", t0, b.hash);
            push("item_separator_transaction_leaf_as_block_hash", edit(&|t| t.block_hash = s.clone()));
        }
    }
    {
        let mut r = m.clone();
        let items = &mut r.certified_blocks.as_mut().unwrap().items;
        let t = items.remove(i);
        r.non_certified_blocks.push(t.block_hash);
        push("BENIGN_item_certified_to_non_certified", wrap(&r));
        let mut r = m.clone();
        r.certified_blocks.as_mut().unwrap().items.push(it.clone());
        push("BENIGN_item_duplicated", wrap(&r));
        let mut r = m.clone();
        r.certified_blocks.as_mut().unwrap().items.clear();
        push("BENIGN_items_cleared_proof_kept", wrap(&r));
    }
    if let Some(p) = decode_proof(Fmt::BlkV2, &part.proof) {
        if let Some(b) = chain.block_by_hash(&it.block_hash) {
            let fake = fake_near(b, rng);
            forged_sub_tree_variants(Fmt::BlkV2, &p, b.number, truth_leaves(Fmt::BlkV2, chain, b.number, beacon), &leaf_blk_v2(&fake), &mut |class, proof| {
                let mut r = m.clone();
                let c = r.certified_blocks.as_mut().unwrap();
                c.proof = encode_proof(Fmt::BlkV2, &proof);
                c.items.push(fake.clone());
                push(class, wrap(&r));
            });
            if let Some(fp) = forge(b.number, truth_leaves(Fmt::BlkV2, chain, b.number, beacon), &leaf_blk_v2(&fake), &[]) {
                let mut r = m.clone();
                r.certified_blocks.as_mut().unwrap().proof = encode_proof(Fmt::BlkV2, &fp);
                push("proof_forged_whole_items_kept", wrap(&r));
                let mut r = m.clone();
                r.certified_blocks = Some(MkSetProofMessagePart { items: vec![fake.clone()], proof: encode_proof(Fmt::BlkV2, &fp) });
                push("proof_forged_whole_fake_item", wrap(&r));
            }
        }
    }
}

// small helper: a deterministic rng from a number (used inside Fn closures that cannot borrow the main rng)
trait SeedU64 {
    fn from_seed_u64(s: u64) -> Self;
}
impl SeedU64 for ChaCha20Rng {
    fn from_seed_u64(s: u64) -> Self {
        use rand_core::SeedableRng;
        let mut seed = [0u8; 32];
        seed[..8].copy_from_slice(&s.to_le_bytes());
        ChaCha20Rng::from_seed(seed)
    }
}
