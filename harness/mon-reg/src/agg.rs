//! Entry points 2 and 3: the aggregator's `MithrilSignerRegistrationVerifier::verify` and
//! `MithrilSignerRegistrationLeader::register_signer` (real code of /repo/mithril-aggregator),
//! with harness doubles for the chain observer (current KES period), the verification key store
//! and the signer recorder (all three are public traits).
use crate::eval::{error_kind, Case};
use crate::sub::{self, Sub, Truth};
use crate::world::World;
use async_trait::async_trait;
use mithril_aggregator::services::{
    MithrilSignerRegistrationLeader, MithrilSignerRegistrationVerifier, SignerRecorder, SignerRegisterer,
    SignerRegistrationError, SignerRegistrationRoundOpener, SignerRegistrationVerifier,
};
use mithril_aggregator::VerificationKeyStorer;
use mithril_cardano_node_chain::chain_observer::{ChainObserver, ChainObserverError};
use mithril_cardano_node_chain::entities::{ChainAddress, TxDatum};
use mithril_common::crypto_helper::{KesEvolutions, KesPeriod};
use mithril_common::entities::{ChainPoint, Epoch, PartyId, Signer, SignerWithStake, StakeDistribution};
use mithril_common::protocol::SignerBuilder;
use mithril_common::StdResult;
use rand_chacha::ChaCha20Rng;
use serde_json::json;
use std::collections::{BTreeMap, HashMap, HashSet};
use std::sync::{Arc, Mutex};
use vcore::{rnd, Monitor};

pub struct Obs {
    pub period: Option<u64>,
}

#[async_trait]
impl ChainObserver for Obs {
    async fn get_current_datums(&self, _address: &ChainAddress) -> Result<Vec<TxDatum>, ChainObserverError> {
        Ok(vec![])
    }
    async fn get_current_era(&self) -> Result<Option<String>, ChainObserverError> {
        Ok(None)
    }
    async fn get_current_epoch(&self) -> Result<Option<Epoch>, ChainObserverError> {
        Ok(Some(Epoch(10)))
    }
    async fn get_current_chain_point(&self) -> Result<Option<ChainPoint>, ChainObserverError> {
        Ok(None)
    }
    async fn get_current_stake_distribution(&self) -> Result<Option<StakeDistribution>, ChainObserverError> {
        Ok(None)
    }
    async fn get_current_kes_period(&self) -> Result<Option<KesPeriod>, ChainObserverError> {
        Ok(self.period.map(KesPeriod))
    }
}

#[derive(Default)]
pub struct MemStore {
    pub map: Mutex<BTreeMap<(u64, PartyId), SignerWithStake>>,
}

#[async_trait]
impl VerificationKeyStorer for MemStore {
    async fn save_verification_key(&self, epoch: Epoch, signer: SignerWithStake) -> StdResult<Option<SignerWithStake>> {
        Ok(self.map.lock().unwrap().insert((*epoch, signer.party_id.clone()), signer))
    }
    async fn get_verification_keys(&self, epoch: Epoch) -> StdResult<Option<HashMap<PartyId, Signer>>> {
        let m: HashMap<PartyId, Signer> =
            self.map.lock().unwrap().iter().filter(|((e, _), _)| *e == *epoch).map(|((_, p), s)| (p.clone(), s.clone().into())).collect();
        Ok(if m.is_empty() { None } else { Some(m) })
    }
    async fn get_signers(&self, epoch: Epoch) -> StdResult<Option<Vec<SignerWithStake>>> {
        let v: Vec<SignerWithStake> = self.map.lock().unwrap().iter().filter(|((e, _), _)| *e == *epoch).map(|(_, s)| s.clone()).collect();
        Ok(if v.is_empty() { None } else { Some(v) })
    }
    async fn prune_verification_keys(&self, max_epoch_to_prune: Epoch) -> StdResult<()> {
        self.map.lock().unwrap().retain(|(e, _), _| *e > *max_epoch_to_prune);
        Ok(())
    }
}

#[derive(Default)]
pub struct MemRecorder {
    pub ids: Mutex<Vec<String>>,
}

#[async_trait]
impl SignerRecorder for MemRecorder {
    async fn record_signer_registration(&self, signer_id: String) -> StdResult<()> {
        self.ids.lock().unwrap().push(signer_id);
        Ok(())
    }
}

/// entry-1 case -> entry-2 case: the chain period is chosen so that (chain - certificate start)
/// equals the entry-1 announced value; the registrant's own `kes_evolutions` field is perturbed
/// (it must be ignored by the verifier).
pub fn to_entry2(c: &Case, rng: &mut ChaCha20Rng) -> Option<Case> {
    if c.pre.len() != 1 {
        return None; // stateful rounds are an entry-1 / leader matter
    }
    let mut c2 = c.clone();
    match (&c.sub.oc, c.sub.ann) {
        (Some(oc), Some(a)) => {
            c2.chain_period = Some(Some(oc.start.checked_add(a).unwrap_or(u64::MAX)));
            c2.sub.ann = match rnd::below(rng, 4) {
                0 => Some(a),
                1 => None,
                2 => Some(a.wrapping_add(3)),
                _ => Some(u64::MAX),
            };
        }
        (Some(_), None) => c2.chain_period = Some(None),
        (None, _) => c2.chain_period = Some(Some(rnd::below(rng, 500))),
    }
    Some(c2)
}

pub fn announced_eff(s: &Sub, chain: Option<u64>) -> Option<u64> {
    s.oc.as_ref().map(|o| chain.unwrap_or(0).saturating_sub(o.start))
}

fn signer_of(s: &Sub, ty: &sub::Typed) -> Signer {
    Signer {
        party_id: s.claimed_party.clone().unwrap_or_default(),
        verification_key_for_concatenation: ty.vkpop,
        verification_key_signature_for_concatenation: ty.kes_sig,
        operational_certificate: ty.opcert.clone(),
        kes_evolutions: s.ann.map(KesEvolutions),
    }
}

fn judge(
    mon: &mut Monitor,
    entry: &str,
    tag: &str,
    c: &Case,
    truth: &Truth,
    accepted: bool,
    outcome: &str,
    recorded: Option<(&str, u64)>,
    shard: u64,
    index: usize,
) {
    let fs = truth.false_set();
    if accepted && !truth.all() {
        let alias = fs == "kes_evolution_within_one_of_announced" && truth.kes_t == Some(63) && truth.announced == Some(65);
        let sig = if alias {
            "C07 KES window: signature made at evolution 63 accepted for announced evolution 65 (upper clamp 64 is tried and verifies like 63)".to_string()
        } else {
            format!("C07 soundness: accepted although false: {fs}")
        };
        mon.violation(
            &sig,
            &format!("{entry} accepted a submission of class {} although [{fs}] does not hold (true KES evolution {:?}, chain-derived announced {:?})", c.class, truth.kes_t, truth.announced),
            c.replay(entry, shard, index, truth, outcome),
        );
    }
    if !accepted && truth.all() {
        mon.violation(
            &format!("C07 completeness: all conjuncts hold but rejected ({outcome})"),
            &format!("{entry} rejected a submission of class {} for which every conjunct holds by construction: {outcome}", c.class),
            c.replay(entry, shard, index, truth, outcome),
        );
    }
    if let Some((pid, stake)) = recorded {
        mon.count(&format!("{tag}/checked/recorded_party_id_and_stake"));
        if Some(pid) != truth.derived.as_deref() {
            mon.violation(
                "C07 recorded party id differs from the pool id derived from the cold key",
                &format!("{entry} recorded {pid}, derived {:?}, claimed {:?}", truth.derived, c.sub.claimed_party),
                c.replay(entry, shard, index, truth, outcome),
            );
        }
        if let Some(st) = truth.stake {
            if stake != st {
                mon.violation(
                    "C07 recorded stake differs from the stake distribution's value for the derived pool",
                    &format!("{entry}: recorded {stake}, distribution[{:?}] = {st}", truth.derived),
                    c.replay(entry, shard, index, truth, outcome),
                );
            }
        }
    }
}

fn outcome_of<T>(r: &Result<T, anyhow::Error>) -> String {
    match r {
        Ok(_) => "accepted".into(),
        Err(e) => format!("rejected:{}", error_kind(e)),
    }
}

/// entry 2: one submission through `MithrilSignerRegistrationVerifier::verify`
pub fn run_entry2(w: &World, c: &Case, rt: &tokio::runtime::Runtime, mon: &mut Monitor, shard: u64, index: usize, downstream: Option<&SignerWithStake>) -> String {
    let entry = "MithrilSignerRegistrationVerifier::verify";
    mon.eval();
    let chain = c.chain_period.expect("entry-2 case");
    let ann = announced_eff(&c.sub, chain);
    let truth = sub::truth(w, &c.sub, ann, &c.dist, &HashSet::new());
    let fs = truth.false_set();
    mon.count(&format!("truth2/{}", if fs.is_empty() { "all_conjuncts_hold" } else { &fs }));
    if !truth.all() {
        mon.nontrivial(&[c.class.as_bytes(), b"|2|", &c.sub.key_bytes(), serde_json::to_string(&c.dist).unwrap().as_bytes(), format!("{chain:?}").as_bytes()].concat());
    }
    let ty = match sub::typed(&c.sub) {
        Ok(t) => t,
        Err(e) => {
            let o = format!("undecodable:{}", e.split(':').next().unwrap_or("?"));
            mon.count(&format!("e2/{}/{o}", c.class));
            return o;
        }
    };
    let signer = signer_of(&c.sub, &ty);
    let verifier = MithrilSignerRegistrationVerifier::new(Arc::new(Obs { period: chain }));
    let res = vcore::catch(|| rt.block_on(verifier.verify(&signer, &c.dist)));
    let res = match res {
        Ok(r) => r,
        Err(p) => {
            mon.count(&format!("e2/{}/panic", c.class));
            mon.inconclusive(&format!("panic inside {entry}: {p} [class {}, shard {shard}, case {index}]", c.class));
            return "panic".into();
        }
    };
    let outcome = outcome_of(&res);
    mon.count(&format!("e2/{}/{outcome}", c.class));
    if mon.counter("sampled/e2") < 2 && index % 89 == 5 {
        mon.count("sampled/e2");
        mon.sample(json!({"entry": entry, "class": c.class, "false_conjuncts": fs, "outcome": outcome,
            "chain_kes_period": chain, "certificate_start": c.sub.oc.as_ref().map(|o| o.start),
            "announced_as_derived_by_verifier": ann,
            "registrants_kes_evolutions_field": c.sub.ann, "true_kes_evolution": truth.kes_t,
            "recorded": res.as_ref().ok().map(|s| json!({"party_id": s.party_id, "stake": s.stake})),
            "claimed_party_id": c.sub.claimed_party}));
    }
    let rec = res.as_ref().ok().map(|s| (s.party_id.as_str(), s.stake));
    judge(mon, entry, "e2", c, &truth, res.is_ok(), &outcome, rec, shard, index);
    if let Ok(sws) = &res {
        // the accepted record must carry the submitted key material unchanged
        if sws.verification_key_for_concatenation.to_bytes().to_vec() != c.sub.vkpop() {
            mon.violation(
                "C07 accepted record carries another verification key than the submitted one",
                &format!("{entry}: class {}", c.class),
                c.replay(entry, shard, index, &truth, &outcome),
            );
        }
        // NOT judged (outside the C07 statement): is the accepted record usable by the code that
        // later rebuilds the key registration from stored signers (SignerBuilder::new re-verifies
        // with the registrant's own kes_evolutions field, which verify() ignored)?
        if let Some(other) = downstream {
            let params = mithril_common::entities::ProtocolParameters { k: 3, m: 10, phi_f: 0.5 };
            let ok = vcore::catch(|| SignerBuilder::new(&[other.clone(), sws.clone()], &params).is_ok()).unwrap_or(false);
            let field = match (c.sub.ann, truth.kes_t) {
                (None, _) => "absent",
                (Some(a), Some(t)) if a.abs_diff(t as u64) <= 1 => "within_one_of_true",
                _ => "far_from_true",
            };
            mon.count(&format!("note/downstream_SignerBuilder_on_accepted_record/registrants_field_{field}/{}", if ok { "ok" } else { "FAILS" }));
        }
    }
    outcome
}

fn leader_outcome(r: &Result<SignerWithStake, SignerRegistrationError>) -> String {
    match r {
        Ok(_) => "accepted".into(),
        Err(SignerRegistrationError::RegistrationRoundNotYetOpened) => "rejected:RoundNotYetOpened".into(),
        Err(SignerRegistrationError::RegistrationRoundUnexpectedEpoch { .. }) => "rejected:UnexpectedEpoch".into(),
        Err(SignerRegistrationError::ExistingSigner(_)) => "rejected:ExistingSigner".into(),
        Err(SignerRegistrationError::InvalidSignerRegistration(_, _, e)) => format!("rejected:Invalid:{}", error_kind(e)),
        Err(e) => format!("rejected:{}", format!("{e:?}").split(['(', ' ', '{']).next().unwrap_or("other")),
    }
}

/// entry 3: the leader. Round handling around one submission:
///  no round -> rejected; a decoy round (other epoch, distorted distribution) is opened and
///  closed; the real round is opened; wrong epoch -> rejected; right epoch -> judged against the
///  REAL round's distribution; the stored record carries the real round's stake; second
///  submission of the same registration -> refused as already registered.
pub fn run_entry3(w: &World, c: &Case, rt: &tokio::runtime::Runtime, mon: &mut Monitor, shard: u64, index: usize) -> String {
    let entry = "MithrilSignerRegistrationLeader::register_signer";
    mon.eval();
    let chain = c.chain_period.expect("entry-2 case");
    let ann = announced_eff(&c.sub, chain);
    let truth = sub::truth(w, &c.sub, ann, &c.dist, &HashSet::new());
    if !truth.all() {
        mon.nontrivial(&[c.class.as_bytes(), b"|3|", &c.sub.key_bytes(), serde_json::to_string(&c.dist).unwrap().as_bytes(), format!("{chain:?}").as_bytes()].concat());
    }
    let Ok(ty) = sub::typed(&c.sub) else {
        mon.count(&format!("e3/{}/undecodable", c.class));
        return "undecodable".into();
    };
    let signer = signer_of(&c.sub, &ty);
    let store = Arc::new(MemStore::default());
    let recorder = Arc::new(MemRecorder::default());
    let verifier = Arc::new(MithrilSignerRegistrationVerifier::new(Arc::new(Obs { period: chain })));
    let leader = MithrilSignerRegistrationLeader::new(store.clone(), recorder.clone(), verifier);
    // decoy distribution: the pool's presence is inverted and every stake is changed
    let mut decoy: StakeDistribution = c.dist.iter().map(|(k, v)| (k.clone(), v ^ 0x5555)).collect();
    if let Some(d) = &truth.derived {
        if decoy.remove(d).is_none() {
            decoy.insert(d.clone(), 4242);
        }
    }
    let (e_decoy, e_real) = (Epoch(7), Epoch(8));
    let r = vcore::catch(|| {
        rt.block_on(async {
            let r0 = leader.register_signer(e_real, &signer).await;
            leader.open_registration_round(e_decoy, decoy.clone()).await.unwrap();
            leader.close_registration_round().await.unwrap();
            let r1 = leader.register_signer(e_decoy, &signer).await;
            leader.open_registration_round(e_real, c.dist.clone()).await.unwrap();
            let r2 = leader.register_signer(e_decoy, &signer).await;
            let r3 = leader.register_signer(e_real, &signer).await;
            let r4 = leader.register_signer(e_real, &signer).await;
            (r0, r1, r2, r3, r4)
        })
    });
    let (r0, r1, r2, r3, r4) = match r {
        Ok(x) => x,
        Err(p) => {
            mon.inconclusive(&format!("panic inside {entry}: {p} [class {}, shard {shard}, case {index}]", c.class));
            return "panic".into();
        }
    };
    for (name, r) in [("before_any_round", &r0), ("after_round_closed", &r1), ("other_epoch_than_open_round", &r2)] {
        mon.count(&format!("e3/round/{name}/{}", leader_outcome(r).split(':').take(2).collect::<Vec<_>>().join(":")));
        if r.is_ok() {
            mon.violation(
                "C07 leader accepted a registration outside the open round",
                &format!("{entry}: {name}: accepted (class {})", c.class),
                c.replay(entry, shard, index, &truth, "accepted"),
            );
        }
    }
    let outcome = leader_outcome(&r3);
    mon.count(&format!("e3/{}/{outcome}", c.class));
    if mon.counter("sampled/e3") < 2 && index % 83 == 7 {
        mon.count("sampled/e3");
        mon.sample(json!({"entry": entry, "class": c.class, "false_conjuncts": truth.false_set(),
            "history": [
                {"step": "register before any round", "outcome": leader_outcome(&r0)},
                {"step": "open decoy round (epoch 7, distorted distribution), close it, register", "outcome": leader_outcome(&r1)},
                {"step": "open real round (epoch 8), register for epoch 7", "outcome": leader_outcome(&r2)},
                {"step": "register for epoch 8", "outcome": outcome},
                {"step": "register for epoch 8 again", "outcome": leader_outcome(&r4)}],
            "real_round_distribution": c.dist, "decoy_distribution": decoy,
            "recorded": r3.as_ref().ok().map(|s| json!({"party_id": s.party_id, "stake": s.stake}))}));
    }
    let rec = r3.as_ref().ok().map(|s| (s.party_id.as_str(), s.stake));
    judge(mon, entry, "e3", c, &truth, r3.is_ok(), &outcome, rec, shard, index);
    let stored: Vec<((u64, String), SignerWithStake)> = store.map.lock().unwrap().iter().map(|(k, v)| (k.clone(), v.clone())).collect();
    if r3.is_ok() {
        // store: exactly one record, under the real epoch and the derived id, with the real round's stake
        let good = stored.len() == 1
            && stored[0].0 == (*e_real, truth.derived.clone().unwrap_or_default())
            && Some(stored[0].1.stake) == truth.stake
            && stored[0].1.party_id == stored[0].0 .1;
        mon.count("e3/checked/stored_record");
        if !good {
            mon.violation(
                "C07 leader stored a record that differs from (round epoch, derived pool id, round stake)",
                &format!("{entry}: stored {:?}", stored.iter().map(|(k, v)| (k.clone(), v.stake)).collect::<Vec<_>>()),
                c.replay(entry, shard, index, &truth, &outcome),
            );
        }
        let again = leader_outcome(&r4);
        mon.count(&format!("e3/second_submission/{again}"));
        if r4.is_ok() {
            mon.violation(
                "C07 leader accepted the same registration twice in one round",
                &format!("{entry}: second submission accepted (class {})", c.class),
                c.replay(entry, shard, index, &truth, &again),
            );
        }
    } else {
        mon.count("e3/checked/store_empty_after_reject");
        if !stored.is_empty() || !recorder.ids.lock().unwrap().is_empty() {
            mon.violation(
                "C07 leader stored or recorded a rejected registration",
                &format!("{entry}: {} stored, {} recorded after {outcome}", stored.len(), recorder.ids.lock().unwrap().len()),
                c.replay(entry, shard, index, &truth, &outcome),
            );
        }
    }
    outcome
}

/// a SignerWithStake for the sentinel (used only by the non-judged downstream note)
pub fn sentinel_record(s: &Sub, stake: u64, w: &World) -> Option<SignerWithStake> {
    let ty = sub::typed(s).ok()?;
    let mut signer = signer_of(s, &ty);
    signer.party_id = crate::world::derive_pool_id(&s.oc.as_ref()?.cold_vk);
    let _ = w;
    Some(SignerWithStake::from_signer(signer, stake))
}
