//! Entry point 1: `KeyRegWrapper::register` (= `ProtocolKeyRegistration`), judged against the
//! by-construction truth; recorded (vk, stake) pairs are read back through `close()`.
use crate::sub::{self, Sub, Truth};
use crate::world::World;
use mithril_common::crypto_helper::{KesVerifyError, ProtocolKeyRegistration, ProtocolRegistrationErrorWrapper};
use mithril_stm::{Parameters, RegisterError};
use serde_json::{json, Value};
use std::collections::{BTreeMap, HashMap, HashSet};
use vcore::{catch, Monitor};

pub const CLOSE_PARAMS: Parameters = Parameters { m: 10, k: 3, phi_f: 0.5 };

#[derive(Clone)]
pub struct Case {
    pub class: String,
    pub sub: Sub,
    pub dist: BTreeMap<String, u64>,
    /// valid registrations accepted before the submission (the sentinel is always first)
    pub pre: Vec<Sub>,
    /// entry 2 only: current KES period reported by the chain observer (None = observer has none)
    pub chain_period: Option<Option<u64>>,
}

impl Case {
    pub fn replay(&self, entry: &str, shard: u64, index: usize, truth: &Truth, outcome: &str) -> Value {
        json!({
            "entry": entry, "shard": shard, "case_index": index, "class": self.class,
            "submission": self.sub.to_json(),
            "stake_distribution": self.dist,
            "pre_registered": self.pre.iter().map(|p| p.to_json()).collect::<Vec<_>>(),
            "chain_kes_period": self.chain_period,
            "truth": truth.to_json(), "outcome": outcome,
            "how_to_replay": "mon-reg C07 --tier <tier> --replay <this file> re-runs the shard and prints this case",
        })
    }
}

/// classify a registration error by walking the anyhow chain
pub fn error_kind(e: &anyhow::Error) -> String {
    let mut kind = String::new();
    for cause in e.chain() {
        if let Some(k) = cause.downcast_ref::<ProtocolRegistrationErrorWrapper>() {
            kind = match k {
                ProtocolRegistrationErrorWrapper::PartyIdMissing => "PartyIdMissing",
                ProtocolRegistrationErrorWrapper::PartyIdNonExisting => "PartyIdNonExisting",
                ProtocolRegistrationErrorWrapper::OpCertMissing => "OpCertMissing",
                ProtocolRegistrationErrorWrapper::OpCertInvalid => "OpCertInvalid",
                ProtocolRegistrationErrorWrapper::KesSignatureInvalid(..) => "KesSignatureInvalid",
                ProtocolRegistrationErrorWrapper::KesSignatureMissing => "KesSignatureMissing",
                ProtocolRegistrationErrorWrapper::KesPeriodMissing => "KesPeriodMissing",
                ProtocolRegistrationErrorWrapper::PoolAddressEncoding => "PoolAddressEncoding",
                ProtocolRegistrationErrorWrapper::CoreRegister(_) => "CoreRegister",
            }
            .to_string();
        }
        if let Some(k) = cause.downcast_ref::<KesVerifyError>() {
            kind = match k {
                KesVerifyError::OpCertInvalid => "Kes:OpCertInvalid",
                KesVerifyError::SignatureInvalid(..) => "Kes:SignatureInvalid",
                KesVerifyError::InvalidKesEvolutions(_) => "Kes:InvalidKesEvolutions",
            }
            .to_string();
        }
        if let Some(k) = cause.downcast_ref::<RegisterError>() {
            kind = match k {
                RegisterError::ConcatenationKeyInvalid(_) => "Stm:ConcatenationKeyInvalid".to_string(),
                RegisterError::EntryAlreadyRegistered(_) => "Stm:EntryAlreadyRegistered".to_string(),
                other => format!("Stm:{}", format!("{other:?}").split(['(', ' ', '{']).next().unwrap_or("other")),
            };
        }
    }
    if kind.is_empty() {
        kind = "other".into();
    }
    kind
}

pub struct Base {
    pub reg: ProtocolKeyRegistration,
    pub registered: HashSet<Vec<u8>>,
    pub entries: BTreeMap<Vec<u8>, u64>,
}

#[derive(Default)]
pub struct Cache {
    map: HashMap<String, Result<std::rc::Rc<Base>, String>>,
}

fn entries_of(reg: &ProtocolKeyRegistration) -> Result<BTreeMap<Vec<u8>, u64>, String> {
    let closed = reg.clone().close(&CLOSE_PARAMS).map_err(|e| format!("{e:#}"))?;
    let mut m = BTreeMap::new();
    for e in closed.closed_registration_entries.iter() {
        m.insert(e.get_verification_key_for_concatenation().to_bytes().to_vec(), e.get_stake());
    }
    if m.len() != closed.closed_registration_entries.len() {
        return Err("two registry entries with the same verification key".into());
    }
    Ok(m)
}

impl Cache {
    /// registry of the round with the pre-registrations applied. Err = a pre-registration (valid
    /// by construction) was refused: reported by the caller as completeness failure.
    pub fn base(&mut self, w: &World, c: &Case) -> Result<std::rc::Rc<Base>, String> {
        let key = format!(
            "{}|{}",
            serde_json::to_string(&c.dist).unwrap(),
            c.pre.iter().map(|p| p.to_json().to_string()).collect::<Vec<_>>().join(",")
        );
        if let Some(b) = self.map.get(&key) {
            return b.clone();
        }
        let built = (|| {
            let dist_vec: Vec<(String, u64)> = c.dist.iter().map(|(k, v)| (k.clone(), *v)).collect();
            let mut reg = ProtocolKeyRegistration::init(&dist_vec);
            let mut registered = HashSet::new();
            let mut entries = BTreeMap::new();
            for p in &c.pre {
                let t = sub::truth(w, p, p.ann, &c.dist, &registered);
                if !t.all() {
                    return Err(format!("harness error: pre-registration not valid by construction ({})", t.false_set()));
                }
                let ty = sub::typed(p)?;
                match catch(|| reg.register(sub::params(p, &ty))) {
                    Ok(Ok(_)) => {}
                    Ok(Err(e)) => return Err(format!("valid pre-registration refused: {}", error_kind(&e))),
                    Err(p) => return Err(format!("panic in pre-registration: {p}")),
                }
                registered.insert(p.vk.to_vec());
                entries.insert(p.vk.to_vec(), t.stake.unwrap());
            }
            Ok(std::rc::Rc::new(Base { reg, registered, entries }))
        })();
        self.map.insert(key, built.clone());
        built
    }
}

/// one submission through `KeyRegWrapper::register`
pub fn run_entry1(w: &World, c: &Case, cache: &mut Cache, mon: &mut Monitor, shard: u64, index: usize) -> String {
    let entry = "KeyRegWrapper::register";
    mon.eval();
    let base = match cache.base(w, c) {
        Ok(b) => b,
        Err(e) => {
            if e.starts_with("harness error") {
                mon.inconclusive(&format!("{e} [class {}, shard {shard}, case {index}]", c.class));
            } else {
                let t = sub::truth(w, &c.sub, c.sub.ann, &c.dist, &HashSet::new());
                mon.violation(
                    "C07 completeness: valid registration refused by KeyRegWrapper::register",
                    &format!("pre-registration of round refused: {e}"),
                    c.replay(entry, shard, index, &t, &e),
                );
            }
            return "base-unavailable".into();
        }
    };
    let truth = sub::truth(w, &c.sub, c.sub.ann, &c.dist, &base.registered);
    let fs = truth.false_set();
    mon.count(&format!("truth/{}", if fs.is_empty() { "all_conjuncts_hold" } else { &fs }));
    if !truth.all() {
        mon.nontrivial(&[c.class.as_bytes(), b"|1|", &c.sub.key_bytes(), serde_json::to_string(&c.dist).unwrap().as_bytes(), &[c.pre.len() as u8]].concat());
    }
    let ty = match sub::typed(&c.sub) {
        Ok(t) => t,
        Err(e) => {
            let part = e.split(':').next().unwrap_or("?").to_string();
            let o = format!("undecodable:{part}");
            mon.count(&format!("e1/{}/{o}", c.class));
            if truth.all() {
                mon.violation(
                    "C07 completeness: genuine component values refused by the typed constructors",
                    &format!("class {}: {e}", c.class),
                    c.replay(entry, shard, index, &truth, &o),
                );
            }
            return o;
        }
    };
    let mut reg = base.reg.clone();
    let p = sub::params(&c.sub, &ty);
    let res = catch(|| reg.register(p));
    let outcome = match &res {
        Ok(Ok(_)) => "accepted".to_string(),
        Ok(Err(e)) => format!("rejected:{}", error_kind(e)),
        Err(p) => format!("panic:{}", vcore::panic_location(p)),
    };
    mon.count(&format!("e1/{}/{outcome}", c.class));
    if let Err(p) = &res {
        mon.inconclusive(&format!("panic inside KeyRegWrapper::register: {p} [class {}, shard {shard}, case {index}]", c.class));
        return outcome;
    }
    let accepted = matches!(res, Ok(Ok(_)));
    if mon.counter("sampled/e1") < 2 && (index % 97 == 3) {
        mon.count("sampled/e1");
        mon.sample(json!({"entry": entry, "class": c.class, "false_conjuncts": fs, "outcome": outcome,
            "true_kes_evolution": truth.kes_t, "derived_pool": truth.derived, "distribution_stake": truth.stake,
            "stake_distribution": c.dist, "pre_registered": c.pre.len(), "submission": c.sub.to_json()}));
    }
    // --- soundness
    if accepted && !truth.all() {
        let alias = fs == "kes_evolution_within_one_of_announced" && truth.kes_t == Some(63) && truth.announced == Some(65);
        let sig = if alias {
            "C07 KES window: signature made at evolution 63 accepted for announced evolution 65 (upper clamp 64 is tried and verifies like 63)".to_string()
        } else {
            format!("C07 soundness: accepted although false: {fs}")
        };
        mon.violation(
            &sig,
            &format!("{entry} accepted a submission of class {} although [{fs}] does not hold (true KES evolution {:?}, announced {:?})", c.class, truth.kes_t, truth.announced),
            c.replay(entry, shard, index, &truth, &outcome),
        );
    }
    // --- completeness
    if !accepted && truth.all() {
        mon.violation(
            &format!("C07 completeness: all conjuncts hold but rejected ({})", outcome),
            &format!("{entry} rejected a submission of class {} for which every conjunct holds by construction: {outcome}", c.class),
            c.replay(entry, shard, index, &truth, &outcome),
        );
    }
    // --- recorded party id
    if let Ok(Ok(pid)) = &res {
        mon.count("e1/checked/recorded_party_id");
        if Some(pid) != truth.derived.as_ref() {
            mon.violation(
                "C07 recorded party id differs from the pool id derived from the cold key",
                &format!("{entry} returned {pid}, derived {:?}, claimed {:?}", truth.derived, c.sub.claimed_party),
                c.replay(entry, shard, index, &truth, &outcome),
            );
        }
    }
    // --- recorded stake / registry contents
    match entries_of(&reg) {
        Ok(after) => {
            let mut expect = base.entries.clone();
            if accepted {
                // judged only when the model knows the stake (pool present); if the pool is
                // absent the acceptance itself is already a soundness violation
                if let Some(st) = truth.stake {
                    expect.insert(c.sub.vk.to_vec(), st);
                    mon.count("e1/checked/recorded_stake");
                    let claimed = w.bls.iter().find(|b| b.vk == c.sub.vk).map(|b| b.claimed_stake);
                    if claimed.is_some() && claimed != Some(st) {
                        mon.count("e1/checked/recorded_stake_with_different_claimed_stake");
                    }
                    let rec = after.get(&c.sub.vk.to_vec()).copied();
                    if rec != Some(st) {
                        mon.violation(
                            "C07 recorded stake differs from the stake distribution's value for the derived pool",
                            &format!("{entry}: recorded {rec:?}, distribution[{:?}] = {st}, registrant's own stake value {claimed:?}", truth.derived),
                            c.replay(entry, shard, index, &truth, &outcome),
                        );
                    } else if after != expect {
                        mon.violation(
                            "C07 accepted registration altered other registry entries",
                            &format!("{entry}: registry after acceptance has {} entries, expected {}", after.len(), expect.len()),
                            c.replay(entry, shard, index, &truth, &outcome),
                        );
                    }
                }
            } else {
                mon.count("e1/checked/registry_unchanged_after_reject");
                if after != expect {
                    mon.violation(
                        "C07 rejected registration changed the registry",
                        &format!("{entry}: registry has {} entries after a rejection, expected {}", after.len(), expect.len()),
                        c.replay(entry, shard, index, &truth, &outcome),
                    );
                }
            }
        }
        Err(e) => {
            mon.count("e1/registry_unreadable");
            mon.count(&format!("e1/registry_unreadable/{}", e.chars().take(40).collect::<String>()));
        }
    }
    outcome
}
