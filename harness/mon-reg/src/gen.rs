//! Workload: worlds of 2-6 pools, valid registrations, per-component mutations, announced
//! evolution sweeps, stake distribution variants, duplicates, and pairwise / subset splices.
use crate::eval::Case;
use crate::sub::Sub;
use crate::world::{opcert_signable, OcParts, World, KES_MAX_PERIOD};
use rand_chacha::ChaCha20Rng;
use rand_core::RngCore;
use std::collections::BTreeMap;
use vcore::rnd;
use vcore::Tier;

#[derive(Clone)]
pub struct Reg {
    pub pool: usize,
    pub cert: usize,
    pub t: u32,
    pub bls: usize,
    pub sub: Sub,
}

pub struct Setup {
    pub w: World,
    pub dist: BTreeMap<String, u64>,
    pub sentinel: Sub,
    pub in_dist: Vec<usize>,
    pub attacker: usize,
    pub regs: Vec<Reg>,
}

pub const COMPONENTS: [&str; 10] = [
    "opcert.kes_vk",
    "opcert.issue_number",
    "opcert.start_kes_period",
    "opcert.cert_sig",
    "opcert.cold_vk",
    "kes_signature",
    "announced_evolutions",
    "vk",
    "pop",
    "claimed_party_id",
];

/// components in `mask` from `a`, the rest from `b` (both carry a certificate)
pub fn splice(a: &Sub, b: &Sub, mask: u16) -> Sub {
    let (oa, ob) = (a.oc.as_ref().unwrap(), b.oc.as_ref().unwrap());
    let f = |i: u16| mask & (1 << i) != 0;
    Sub {
        oc: Some(OcParts {
            kes_vk: if f(0) { oa.kes_vk } else { ob.kes_vk },
            issue: if f(1) { oa.issue } else { ob.issue },
            start: if f(2) { oa.start } else { ob.start },
            sig: if f(3) { oa.sig } else { ob.sig },
            cold_vk: if f(4) { oa.cold_vk } else { ob.cold_vk },
        }),
        kes_sig: if f(5) { a.kes_sig.clone() } else { b.kes_sig.clone() },
        ann: if f(6) { a.ann } else { b.ann },
        vk: if f(7) { a.vk } else { b.vk },
        pop: if f(8) { a.pop } else { b.pop },
        claimed_party: if f(9) { a.claimed_party.clone() } else { b.claimed_party.clone() },
    }
}

pub const GROUPS: [(&str, u16); 9] = [
    ("whole_certificate", 0b0000011111),
    ("certificate_without_cold_vk", 0b0000001111),
    ("kes_vk+cert_sig", 0b0000001001),
    ("vk+pop", 0b0110000000),
    ("kes_signature+announced", 0b0001100000),
    ("kes_signature+vk+pop", 0b0110100000),
    ("certificate+kes_signature+announced", 0b0001111111),
    ("cold_vk+claimed_party", 0b1000010000),
    ("cert_sig+cold_vk", 0b0000011000),
];

fn flip(v: &mut [u8], bit: usize) {
    v[bit / 8] ^= 1 << (bit % 8);
}

fn bit_positions(rng: &mut ChaCha20Rng, nbits: usize, fixed: &[usize], k: usize) -> Vec<usize> {
    let mut v: Vec<usize> = fixed.iter().copied().filter(|b| *b < nbits).collect();
    for _ in 0..k {
        v.push(rnd::usize_below(rng, nbits));
    }
    v.sort();
    v.dedup();
    v
}

fn u64_edits(rng: &mut ChaCha20Rng, x: u64, other: u64) -> Vec<u64> {
    let mut v = vec![x ^ 1, x ^ (1 << 63), x ^ (1 << rnd::below(rng, 64)), x.wrapping_add(1), x.wrapping_sub(1), 0, u64::MAX, other];
    v.retain(|y| *y != x);
    v.sort();
    v.dedup();
    v
}

pub fn interesting_t(rng: &mut ChaCha20Rng) -> u32 {
    *rnd::pick(rng, &[0u32, 0, 1, 2, 15, 16, 31, 32, 33, 47, 48, 61, 62, 63, 63])
}

pub fn make_reg(w: &mut World, cert: usize, t: u32, ann: u64, bls: usize, claimed: Option<String>) -> Reg {
    let b = w.bls[bls].clone();
    let mut msg = b.vk.to_vec();
    msg.extend_from_slice(&b.pop);
    let kes = w.certs[cert].kes;
    let sig = w.sign_kes(kes, t, &msg);
    Reg {
        pool: w.certs[cert].pool,
        cert,
        t,
        bls,
        sub: Sub { oc: Some(w.certs[cert].parts.clone()), kes_sig: Some(sig), ann: Some(ann), vk: b.vk, pop: b.pop, claimed_party: claimed },
    }
}

fn near(rng: &mut ChaCha20Rng, t: u32) -> u64 {
    // an announced value within one period of t
    let t = t as u64;
    match rnd::below(rng, 3) {
        0 => t.saturating_sub(1),
        1 => t,
        _ => t + 1,
    }
}

pub fn build_setup(rng: &mut ChaCha20Rng, n_pools: usize) -> Setup {
    let mut w = World::default();
    let mut dist = BTreeMap::new();
    // sentinel: always in the distribution with stake 1, always registered first
    let sp = w.new_pool("sentinel", rng);
    let sk = w.new_kes(rng);
    let sc = w.new_cert(sp, sk, 0, 0);
    let sb = w.new_bls(sp, 77, rng);
    dist.insert(w.pools[sp].pool_id.clone(), 1u64);
    let sentinel = make_reg(&mut w, sc, 0, 0, sb, None).sub;

    let starts = [0u64, 0, 1, 7, 100, 449, 1 << 20, (1 << 33) + 5, u64::MAX - 70];
    let issues = [0u64, 0, 1, 5, 1 << 40];
    let shared_issue = *rnd::pick(rng, &issues);
    let shared_start = *rnd::pick(rng, &starts);
    let mut in_dist = vec![];
    for i in 0..n_pools {
        let p = w.new_pool(&format!("pool{i}"), rng);
        let (ka, kb) = (w.new_kes(rng), w.new_kes(rng));
        // half of the pools share (issue, start) so that splices of these fields are value-equal
        let (issue, start) = if rnd::chance(rng, 1, 2) { (shared_issue, shared_start) } else { (*rnd::pick(rng, &issues), *rnd::pick(rng, &starts)) };
        w.new_cert(p, ka, issue, start);
        w.new_cert(p, kb, issue.wrapping_add(1), start.saturating_add(rnd::below(rng, 60)));
        let stake = match rnd::below(rng, 6) {
            0 => 1,
            1 => 2 + rnd::below(rng, 1000),
            2 => (1u64 << 40) + rnd::below(rng, 1 << 20),
            3 => 1u64 << 59,
            4 => 0,
            _ => 1 + rnd::below(rng, 1 << 50),
        };
        for _ in 0..2 {
            // the registrant's own idea of its stake: never equal to the distribution's
            let claimed = stake.wrapping_mul(3).wrapping_add(1 + rnd::below(rng, 1 << 30));
            w.new_bls(p, claimed, rng);
        }
        dist.insert(w.pools[p].pool_id.clone(), stake);
        in_dist.push(p);
    }
    // attacker: own cold key and KES key, NOT in the distribution
    let attacker = w.new_pool("attacker", rng);
    let ak = w.new_kes(rng);
    w.new_cert(attacker, ak, 0, *rnd::pick(rng, &starts));
    w.new_bls(attacker, 1 << 45, rng);

    // valid registrations
    let mut regs = vec![];
    for (i, &p) in in_dist.iter().enumerate() {
        let t = interesting_t(rng);
        let ann = near(rng, t);
        let (c0, b0) = (w.pools[p].certs[0], w.pools[p].bls[0]);
        let claimed = match rnd::below(rng, 3) {
            0 => None,
            1 => Some(w.pools[p].pool_id.clone()),
            _ => Some(w.pools[in_dist[(i + 1) % in_dist.len()]].pool_id.clone()),
        };
        regs.push(make_reg(&mut w, c0, t, ann, b0, claimed));
    }
    {
        // same pool: rotated certificate + other BLS key; same certificate at another evolution;
        // same certificate with the other BLS key
        let p = in_dist[0];
        let (c0, c1, b0, b1) = (w.pools[p].certs[0], w.pools[p].certs[1], w.pools[p].bls[0], w.pools[p].bls[1]);
        let t = interesting_t(rng);
        let ann = near(rng, t);
        regs.push(make_reg(&mut w, c1, t, ann, b1, None));
        let t0 = regs[0].t;
        let t2 = if t0 >= 32 { t0 - 5 } else { t0 + 5 };
        regs.push(make_reg(&mut w, c0, t2, t2 as u64, b0, None));
        regs.push(make_reg(&mut w, c0, t0, regs[0].sub.ann.unwrap(), b1, None));
    }
    {
        // attacker's own, internally consistent registration (pool not in the distribution)
        let (c, b) = (w.pools[attacker].certs[0], w.pools[attacker].bls[0]);
        let t = interesting_t(rng);
        let ann = near(rng, t);
        let claimed = Some(w.pools[in_dist[0]].pool_id.clone());
        regs.push(make_reg(&mut w, c, t, ann, b, claimed));
    }
    Setup { w, dist, sentinel, in_dist, attacker, regs }
}

fn announced_set(t: u32) -> Vec<(String, u64)> {
    let t64 = t as u64;
    let mut v: Vec<(String, u64)> = vec![];
    for d in -2i64..=2 {
        let a = t64 as i64 + d;
        if a >= 0 {
            v.push((format!("a=t{d:+}"), a as u64));
        }
    }
    for a in [0u64, 61, 62, 63, 64, 65, 66, 67] {
        v.push((if a.abs_diff(t64) <= 2 { format!("a=t{:+}", a as i64 - t64 as i64) } else { "a_far".into() }, a));
    }
    v.push(("a=2^32+t".into(), (1u64 << 32) + t64));
    v.push(("a=2^32-1".into(), (1u64 << 32) - 1));
    v.push(("a=u64max".into(), u64::MAX));
    v.push(("a=u64max-1".into(), u64::MAX - 1));
    let mut seen = std::collections::HashSet::new();
    v.retain(|(_, a)| seen.insert(*a));
    // make the boundaries of the key lifetime visible in the counters
    v.into_iter()
        .map(|(l, a)| {
            let l = if t == KES_MAX_PERIOD && a >= 64 && a <= 67 {
                format!("t=63,a={a}")
            } else if t == 0 && a <= 2 {
                format!("t=0,a={a}")
            } else {
                l
            };
            (l, a)
        })
        .collect()
}

pub struct Sizes {
    pub bases: usize,
    pub bitflips: usize,
    pub sweep_ts: Vec<u32>,
    pub random_masks: usize,
    pub full_subset_pairs: usize,
}

pub fn sizes(tier: Tier, rng: &mut ChaCha20Rng) -> Sizes {
    match tier {
        Tier::Quick => {
            let mut ts = vec![0u32, 1, 62, 63];
            ts.push(2 + rnd::below(rng, 60) as u32);
            Sizes { bases: 2, bitflips: 2, sweep_ts: ts, random_masks: 4, full_subset_pairs: 0 }
        }
        Tier::Thorough => Sizes { bases: 4, bitflips: 8, sweep_ts: (0..=63).collect(), random_masks: 24, full_subset_pairs: 3 },
    }
}

/// every case of one shard (entry-1 form)
pub fn cases(s: &mut Setup, rng: &mut ChaCha20Rng, sz: &Sizes) -> Vec<Case> {
    let mut out: Vec<Case> = vec![];
    let pre0 = vec![s.sentinel.clone()];
    let dist0 = s.dist.clone();
    macro_rules! push {
        ($class:expr, $sub:expr) => {
            out.push(Case { class: $class.to_string(), sub: $sub, dist: dist0.clone(), pre: pre0.clone(), chain_period: None })
        };
        ($class:expr, $sub:expr, $dist:expr, $pre:expr) => {
            out.push(Case { class: $class.to_string(), sub: $sub, dist: $dist, pre: $pre, chain_period: None })
        };
    }
    let regs = s.regs.clone();
    // ---- the valid registrations themselves (completeness, recorded stake / party)
    for r in &regs {
        push!("valid", r.sub.clone());
    }
    let nb = sz.bases.min(s.in_dist.len());
    for bi in 0..nb {
        let b = regs[bi].clone();
        let a = regs[(bi + 1) % s.in_dist.len()].clone(); // donor: another in-distribution pool
        let atk = regs.last().unwrap().clone(); // attacker's registration
        let boc = b.sub.oc.clone().unwrap();
        let aoc = a.sub.oc.clone().unwrap();
        let bkes = s.w.certs[b.cert].kes;
        let akes = s.w.certs[a.cert].kes;
        let vkpop = b.sub.vkpop();

        // ---- operational certificate fields
        for bit in bit_positions(rng, 256, &[0, 255], sz.bitflips) {
            let mut m = b.sub.clone();
            flip(&mut m.oc.as_mut().unwrap().kes_vk, bit);
            push!("oc_kes_vk_bitflip", m);
        }
        for v in u64_edits(rng, boc.issue, aoc.issue) {
            let mut m = b.sub.clone();
            m.oc.as_mut().unwrap().issue = v;
            push!("oc_issue_number_edit", m);
        }
        for v in u64_edits(rng, boc.start, aoc.start) {
            let mut m = b.sub.clone();
            m.oc.as_mut().unwrap().start = v;
            push!("oc_start_kes_period_edit", m);
        }
        for bit in bit_positions(rng, 512, &[0, 255, 256, 511], sz.bitflips) {
            let mut m = b.sub.clone();
            flip(&mut m.oc.as_mut().unwrap().sig, bit);
            push!("oc_cert_sig_bitflip", m);
        }
        for bit in bit_positions(rng, 256, &[0, 255], sz.bitflips + 2) {
            let mut m = b.sub.clone();
            flip(&mut m.oc.as_mut().unwrap().cold_vk, bit);
            push!("oc_cold_vk_bitflip", m);
        }
        {
            let mut m = b.sub.clone();
            m.oc.as_mut().unwrap().cold_vk = aoc.cold_vk;
            push!("oc_cold_vk_swap_to_other_pool", m.clone());
            m.claimed_party = Some(s.w.pools[a.pool].pool_id.clone());
            push!("oc_cold_vk_swap_to_other_pool+claimed_party", m);
            let mut m = b.sub.clone();
            m.oc.as_mut().unwrap().sig = aoc.sig;
            push!("oc_cert_sig_swap", m);
            let mut m = b.sub.clone();
            m.oc.as_mut().unwrap().kes_vk = aoc.kes_vk;
            push!("oc_kes_vk_swap", m);
            let mut m = b.sub.clone();
            m.oc = Some(aoc.clone());
            push!("oc_whole_certificate_of_other_pool", m);
            let mut m = b.sub.clone();
            m.oc = Some(s.w.certs[s.w.pools[b.pool].certs[1]].parts.clone());
            push!("oc_rotated_certificate_of_same_pool_old_kes_key", m);
            // the attacker's cold key genuinely certifies the victim's KES key: certificate valid,
            // pool = attacker (not in the distribution)
            let p = s.w.sign_opcert(s.attacker, boc.kes_vk, boc.issue, boc.start);
            let mut m = b.sub.clone();
            m.oc = Some(p.clone());
            push!("oc_resigned_by_cold_key_outside_distribution", m);
            // same, but the cold key field names the victim
            let mut m = b.sub.clone();
            m.oc = Some(OcParts { cold_vk: boc.cold_vk, ..p });
            push!("oc_resigned_by_attacker_but_naming_victim_cold_vk", m);
            // another in-distribution pool genuinely certifies b's KES key: everything holds,
            // must be accepted as THAT pool with THAT pool's stake
            let p = s.w.sign_opcert(a.pool, boc.kes_vk, boc.issue, boc.start);
            let mut m = b.sub.clone();
            m.oc = Some(p);
            push!("oc_resigned_by_other_pool_in_distribution(valid)", m);
            // attacker certificate + attacker KES signature over the victim's vk||pop, claiming the victim
            let aoc2 = atk.sub.oc.clone().unwrap();
            let k = s.w.certs[atk.cert].kes;
            let sig = s.w.sign_kes(k, atk.t, &vkpop);
            let m = Sub { oc: Some(aoc2), kes_sig: Some(sig), ann: atk.sub.ann, vk: b.sub.vk, pop: b.sub.pop, claimed_party: Some(s.w.pools[b.pool].pool_id.clone()) };
            push!("attacker_certifies_victim_key_claims_victim_party", m);
            // certificate signature made over a different layout (little endian counters)
            let mut msg = opcert_signable(&boc.kes_vk, boc.issue, boc.start);
            msg[32..40].copy_from_slice(&boc.issue.to_le_bytes());
            msg[40..48].copy_from_slice(&boc.start.to_le_bytes());
            if boc.issue.to_le_bytes() != boc.issue.to_be_bytes() || boc.start.to_le_bytes() != boc.start.to_be_bytes() {
                use ed25519_dalek::Signer as _;
                let sig = s.w.pools[b.pool].cold_sk.sign(&msg).to_bytes();
                let mut m = b.sub.clone();
                m.oc.as_mut().unwrap().sig = sig;
                push!("oc_cert_sig_over_other_layout", m);
            }
        }

        // ---- KES signature
        for bit in bit_positions(rng, 448 * 8, &[0, 511, 512, 767, 768, 448 * 8 - 1], sz.bitflips + 2) {
            let mut m = b.sub.clone();
            flip(m.kes_sig.as_mut().unwrap(), bit);
            push!("kes_sig_bitflip", m);
        }
        for d in [-2i64, -1, 1, 2, -7, 7] {
            let t2 = b.t as i64 + d;
            if (0..=63).contains(&t2) {
                let mut m = b.sub.clone();
                m.kes_sig = Some(s.w.sign_kes(bkes, t2 as u32, &vkpop));
                push!("kes_sig_from_other_period_same_announced", m);
            }
        }
        {
            let mut m = b.sub.clone();
            m.kes_sig = Some(s.w.sign_kes(akes, b.t, &vkpop));
            push!("kes_sig_by_other_pools_kes_key", m);
            let mut m = b.sub.clone();
            let other_kes = s.w.certs[s.w.pools[b.pool].certs[1]].kes;
            m.kes_sig = Some(s.w.sign_kes(other_kes, b.t, &vkpop));
            push!("kes_sig_by_same_pools_other_kes_key", m);
            let mut swapped = b.sub.pop.to_vec();
            swapped.extend_from_slice(&b.sub.vk);
            let mut trailing = vkpop.clone();
            trailing.push(0);
            let msgs: Vec<(&str, Vec<u8>)> = vec![
                ("other_pools_vkpop", a.sub.vkpop()),
                ("vk_only", b.sub.vk.to_vec()),
                ("pop_then_vk", swapped),
                ("vkpop_plus_trailing_byte", trailing),
                ("empty", vec![]),
                ("opcert_signable", opcert_signable(&boc.kes_vk, boc.issue, boc.start).to_vec()),
            ];
            for (n, msg) in msgs {
                let mut m = b.sub.clone();
                m.kes_sig = Some(s.w.sign_kes(bkes, b.t, &msg));
                push!(format!("kes_sig_over_other_message/{n}"), m);
            }
            let mut m = b.sub.clone();
            m.kes_sig = a.sub.kes_sig.clone();
            push!("kes_sig_swap", m);
            let mut m = b.sub.clone();
            m.kes_sig = None;
            push!("kes_sig_missing", m);
            let mut m = b.sub.clone();
            m.ann = None;
            push!("announced_missing", m);
        }

        // ---- verification key / proof of possession
        let resign = |w: &mut World, m: &mut Sub| {
            let msg = m.vkpop();
            m.kes_sig = Some(w.sign_kes(bkes, b.t, &msg));
        };
        {
            let mut m = b.sub.clone();
            m.vk = a.sub.vk;
            push!("vk_swap", m.clone());
            resign(&mut s.w, &mut m);
            push!("vk_swap+kes_resigned", m);
            let mut m = b.sub.clone();
            m.pop = a.sub.pop;
            push!("pop_swap", m.clone());
            resign(&mut s.w, &mut m);
            push!("pop_swap+kes_resigned", m);
            let mut m = b.sub.clone();
            m.pop[..48].copy_from_slice(&a.sub.pop[..48]);
            resign(&mut s.w, &mut m);
            push!("pop_k1_swap+kes_resigned", m);
            let mut m = b.sub.clone();
            m.pop[48..].copy_from_slice(&a.sub.pop[48..]);
            resign(&mut s.w, &mut m);
            push!("pop_k2_swap+kes_resigned", m);
            let mut m = b.sub.clone();
            m.vk = a.sub.vk;
            m.pop = a.sub.pop;
            push!("vkpop_swap", m.clone());
            // b's pool certifies a's key with its own KES key: every conjunct holds -> accepted
            resign(&mut s.w, &mut m);
            push!("vkpop_of_other_pool+kes_resigned(valid)", m);
            // the second key pair of the same pool
            let b1 = s.w.bls[s.w.pools[b.pool].bls[1]].clone();
            let mut m = b.sub.clone();
            m.vk = b1.vk;
            push!("vk_swap_same_pool_other_key", m.clone());
            resign(&mut s.w, &mut m);
            push!("vk_swap_same_pool_other_key+kes_resigned", m);
            // point negations: decodable, different group elements (compressed sign flag 0x20)
            for (n, which, off) in [("vk_negated", 0, 0usize), ("pop_k1_negated", 1, 0), ("pop_k2_negated", 1, 48)] {
                let mut m = b.sub.clone();
                if which == 0 {
                    m.vk[off] ^= 0x20;
                } else {
                    m.pop[off] ^= 0x20;
                }
                push!(n, m.clone());
                resign(&mut s.w, &mut m);
                push!(format!("{n}+kes_resigned"), m);
            }
        }
        for bit in bit_positions(rng, 768, &[0, 7, 767], sz.bitflips) {
            let mut m = b.sub.clone();
            flip(&mut m.vk, bit);
            push!("vk_bitflip", m.clone());
            resign(&mut s.w, &mut m);
            push!("vk_bitflip+kes_resigned", m);
        }
        for bit in bit_positions(rng, 768, &[0, 7, 383, 384, 767], sz.bitflips) {
            let mut m = b.sub.clone();
            flip(&mut m.pop, bit);
            push!("pop_bitflip", m.clone());
            resign(&mut s.w, &mut m);
            push!("pop_bitflip+kes_resigned", m);
        }

        // ---- claimed party id (must be ignored)
        for (n, c) in [
            ("none", None),
            ("own", Some(s.w.pools[b.pool].pool_id.clone())),
            ("other_pool_in_distribution", Some(s.w.pools[a.pool].pool_id.clone())),
            ("sentinel", Some(s.w.pools[0].pool_id.clone())),
            ("garbage", Some("pool1garbage".to_string())),
            ("empty", Some(String::new())),
            ("hash_hex_form", Some(crate::world::derive_pool_hash_hex(&boc.cold_vk))),
        ] {
            let mut m = b.sub.clone();
            m.claimed_party = c;
            push!(format!("claimed_party/{n}"), m);
        }

        // ---- no certification at all (only legal under allow_skip_signer_certification)
        {
            let own = Some(s.w.pools[b.pool].pool_id.clone());
            let m = Sub { oc: None, kes_sig: None, ann: None, claimed_party: own.clone(), ..b.sub.clone() };
            push!("no_certificate/claimed_party_only", m);
            let m = Sub { oc: None, claimed_party: own.clone(), ..b.sub.clone() };
            push!("no_certificate/with_kes_signature_and_announced", m);
            let m = Sub { oc: None, kes_sig: None, ann: None, claimed_party: None, ..b.sub.clone() };
            push!("no_certificate/no_party", m);
            let m = Sub { oc: None, kes_sig: None, ann: Some(0), claimed_party: own, ..b.sub.clone() };
            push!("no_certificate/claimed_party_and_announced", m);
        }

        // ---- stake distribution variants
        let bid = s.w.pools[b.pool].pool_id.clone();
        let aid = s.w.pools[a.pool].pool_id.clone();
        {
            let mut d = dist0.clone();
            d.remove(&bid);
            push!("dist/pool_absent", b.sub.clone(), d.clone(), pre0.clone());
            let mut m = b.sub.clone();
            m.claimed_party = Some(aid.clone());
            push!("dist/pool_absent_claimed_party_present", m, d.clone(), pre0.clone());
            // the distribution knows the pool only under another spelling of its id
            let mut d2 = d.clone();
            d2.insert(bid.to_uppercase(), 5);
            d2.insert(format!("{bid} "), 5);
            push!("dist/pool_absent_similar_keys_present", b.sub.clone(), d2, pre0.clone());
            let mut d = BTreeMap::new();
            d.insert(s.w.pools[0].pool_id.clone(), 1u64);
            push!("dist/only_sentinel", b.sub.clone(), d, pre0.clone());
            let claimed = s.w.bls[b.bls].claimed_stake;
            for st in [0u64, 1, claimed, claimed.wrapping_add(1), 1 << 62, rnd::below(rng, 1 << 55), u64::MAX] {
                let mut d = dist0.clone();
                d.insert(bid.clone(), st);
                let n = match st {
                    0 => "zero",
                    u64::MAX => "u64max",
                    x if x == claimed => "equal_to_registrants_own_value",
                    _ => "other",
                };
                push!(format!("dist/stake_{n}"), b.sub.clone(), d, pre0.clone());
            }
            // another pool's stake changes: must not influence b
            let mut d = dist0.clone();
            d.insert(aid.clone(), dist0.get(&aid).copied().unwrap_or(0) ^ 0xffff);
            push!("dist/other_pools_stake_changed", b.sub.clone(), d, pre0.clone());
        }

        // ---- duplicates (stateful rounds)
        {
            let pre_b = vec![s.sentinel.clone(), b.sub.clone()];
            push!("dup/same_registration_again", b.sub.clone(), dist0.clone(), pre_b.clone());
            let t2 = if b.t >= 32 { b.t - 3 } else { b.t + 3 };
            let again = make_reg(&mut s.w, b.cert, t2, t2 as u64, b.bls, None);
            push!("dup/same_key_new_kes_signature", again.sub, dist0.clone(), pre_b.clone());
            let b1 = s.w.pools[b.pool].bls[1];
            let second = make_reg(&mut s.w, b.cert, b.t, b.sub.ann.unwrap(), b1, None);
            push!("dup/second_key_of_registered_pool(valid)", second.sub, dist0.clone(), pre_b.clone());
            // another pool certifies the already registered key
            let mut m = a.sub.clone();
            m.vk = b.sub.vk;
            m.pop = b.sub.pop;
            let msg = m.vkpop();
            m.kes_sig = Some(s.w.sign_kes(akes, a.t, &msg));
            push!("dup/registered_key_certified_by_other_pool", m.clone(), dist0.clone(), pre_b.clone());
            push!("dup/same_submission_when_key_not_registered(valid)", m, dist0.clone(), pre0.clone());
            // the sentinel's key
            let mut m = b.sub.clone();
            m.vk = s.sentinel.vk;
            m.pop = s.sentinel.pop;
            let msg = m.vkpop();
            m.kes_sig = Some(s.w.sign_kes(bkes, b.t, &msg));
            push!("dup/sentinel_key_certified_by_other_pool", m, dist0.clone(), pre0.clone());
            push!("dup/other_pool_after_unrelated_registration(valid)", a.sub.clone(), dist0.clone(), pre_b.clone());
            push!("dup/sentinel_registration_again", s.sentinel.clone(), dist0.clone(), pre0.clone());
        }
    }

    // ---- announced evolution sweep at chosen true evolutions
    {
        let p = s.in_dist[rnd::usize_below(rng, s.in_dist.len())];
        let cert = s.w.pools[p].certs[0];
        let bls = s.w.pools[p].bls[0];
        for &t in &sz.sweep_ts {
            let base = make_reg(&mut s.w, cert, t, t as u64, bls, None);
            for (label, a) in announced_set(t) {
                let mut m = base.sub.clone();
                m.ann = Some(a);
                push!(format!("announced_sweep/{label}"), m);
            }
        }
    }

    // ---- splices of two valid registrations
    let n = regs.len();
    let mut full_done = 0;
    for ai in 0..n {
        for bi in 0..n {
            if ai == bi {
                continue;
            }
            let (a, b) = (&regs[ai].sub, &regs[bi].sub);
            for (i, name) in COMPONENTS.iter().enumerate() {
                push!(format!("splice1/{name}"), splice(a, b, 1 << i));
            }
            for (name, mask) in GROUPS.iter() {
                push!(format!("splice_group/{name}"), splice(a, b, *mask));
            }
            for _ in 0..sz.random_masks {
                let mask = 1 + rnd::below(rng, 1022) as u16;
                push!(format!("splice_subset/{}_components", mask.count_ones()), splice(a, b, mask));
            }
            if full_done < sz.full_subset_pairs && (ai + bi) % 3 == 1 {
                full_done += 1;
                for mask in 1u16..1023 {
                    push!(format!("splice_all_subsets/{}_components", mask.count_ones()), splice(a, b, mask));
                }
            }
        }
    }
    let _ = rng.next_u32();
    out
}

/// entry-2 only: chain period relative to the certificate's start period (incl. a chain that is
/// behind the start period and an observer without KES period)
pub fn cases_chain(s: &mut Setup, rng: &mut ChaCha20Rng) -> Vec<Case> {
    let mut out = vec![];
    let p = s.in_dist[rnd::usize_below(rng, s.in_dist.len())];
    let kes = s.w.new_kes(rng);
    let start = *rnd::pick(rng, &[100u64, 449, 1 << 33]);
    let cert = s.w.new_cert(p, kes, 9, start);
    let bls = s.w.pools[p].bls[0];
    for t in [0u32, 1, 2, 5, 62, 63] {
        let base = make_reg(&mut s.w, cert, t, t as u64, bls, None);
        let t64 = t as u64;
        let mut chains: Vec<(String, Option<u64>)> = vec![
            ("observer_has_no_kes_period".into(), None),
            ("chain_period_zero".into(), Some(0)),
            ("chain_behind_certificate_start".into(), Some(start - 1)),
            ("chain_behind_certificate_start".into(), Some(start / 2)),
            ("chain_at_certificate_start".into(), Some(start)),
            ("chain_u64max".into(), Some(u64::MAX)),
        ];
        for d in -2i64..=3 {
            let c = start as i64 + t64 as i64 + d;
            chains.push((format!("chain=start+t{d:+}"), Some(c as u64)));
        }
        for (label, chain) in chains {
            for claimed in [Some(t64), None, Some(t64 + 40), Some(u64::MAX)] {
                let mut m = base.sub.clone();
                m.ann = claimed;
                let label = if t == 63 && label.starts_with("chain=start+t") { format!("t=63,{label}") } else if t <= 1 && label.contains("behind") { format!("t<=1,{label}") } else { label.clone() };
                out.push(Case { class: format!("chain/{label}"), sub: m, dist: s.dist.clone(), pre: vec![s.sentinel.clone()], chain_period: Some(chain) });
            }
        }
    }
    out
}
