//! mon-reg — C07: signer registration requires a genuine, pool-bound, stake-bound key.
//!
//! `mon-reg C07 --tier quick|thorough [--replay FILE]`
mod agg;
mod eval;
mod gen;
mod sub;
mod world;

use vcore::Monitor;

const RULE: &str = "ground truth by construction: the harness owns every cold / KES / BLS secret key and keeps a ledger of everything it signed; a conjunct holds for a submission iff the submitted VALUES are in the ledger with the right binding (certificate tuple signed by the cold key it carries; KES signature made by the key named in the certificate over exactly vk||pop at true evolution t with |t-announced|<=1; (vk,pop) a generated pair; bech32(blake2b-224(cold vk)) in the round's distribution; vk not yet registered). Oracle per submission: accepted => all conjuncts; all conjuncts => accepted; returned party id == derived pool id; stake read back from the closed registry == distribution[derived pool]; registry unchanged by a rejection. Workload per shard: 2-6 pools (+ sentinel, + attacker outside the distribution), 2 certificates and 2 BLS keys per pool; valid registrations; per-component mutations (bit flips / value edits of each certificate field and its signature, cold key swap, re-certification by other cold keys, KES signature bit flips / other period / other key / other messages / missing, vk / pop / pop-half swaps and point negations with and without re-signing, claimed party ids, no-certificate forms, distribution variants incl. absent / zero / registrant's own stake value, duplicates in stateful rounds), announced-evolution sweeps {0,t-2..t+2,61..67,2^32-1,2^32+t,u64max-1,u64max} at true evolutions incl. 0 and 63, and splices of every ordered pair of valid registrations (each single component, 9 groups, random subsets; thorough: all 1022 subsets for some pairs). Every case goes through KeyRegWrapper::register (entry 1) and, re-expressed with a chain KES period = certificate start + announced and a perturbed registrant kes_evolutions field, through the aggregator's MithrilSignerRegistrationVerifier::verify (entry 2) and MithrilSignerRegistrationLeader::register_signer (entry 3: no round / closed round / other epoch / decoy round with distorted distribution before the real one / second submission; stored record read back); entry 2-3 add chain periods behind / at / after the certificate start and an observer without KES period. Non-trivial = at least one conjunct false by construction (an acceptance would be a violation); distinct = distinct (entry point, class, submission values, distribution, chain period).";

fn run_shard(shard: u64, m: &mut Monitor, only: Option<(String, usize)>) {
    let mut rng = m.rng("world", shard);
    let n_pools = 2 + (shard as usize % 5);
    let mut setup = gen::build_setup(&mut rng, n_pools);
    let sz = gen::sizes(m.tier, &mut rng);
    let cases = gen::cases(&mut setup, &mut rng, &sz);
    // entry 2 / 3 cases: the entry-1 cases re-expressed with a chain period, plus chain-specific ones
    let mut rng2 = m.rng("entry2", shard);
    let mut cases2: Vec<eval::Case> = cases.iter().filter_map(|c| agg::to_entry2(c, &mut rng2)).collect();
    cases2.extend(gen::cases_chain(&mut setup, &mut rng2));
    if only.is_none() {
        m.count(&format!("worlds/pools={n_pools}"));
        m.count_n("ledger/genuine_certificates", setup.w.genuine_oc.len() as u64);
        m.count_n("ledger/genuine_kes_signatures", setup.w.genuine_kes.len() as u64);
        m.count_n("ledger/genuine_vk_pop_pairs", setup.w.genuine_pop.len() as u64);
    }
    let rt = tokio::runtime::Builder::new_current_thread().build().expect("tokio runtime");
    let sentinel_rec = agg::sentinel_record(&setup.sentinel, 1, &setup.w);
    let mut cache = eval::Cache::default();
    let want = |e: &str, i: usize| match &only {
        None => true,
        Some((oe, oi)) => oe == e && *oi == i,
    };
    for (i, c) in cases.iter().enumerate() {
        if want("KeyRegWrapper::register", i) {
            let o = eval::run_entry1(&setup.w, c, &mut cache, m, shard, i);
            if only.is_some() {
                println!("replayed shard {shard} case {i} class {} through KeyRegWrapper::register -> {o}", c.class);
            }
        }
    }
    for (i, c) in cases2.iter().enumerate() {
        if want("MithrilSignerRegistrationVerifier::verify", i) {
            let o = agg::run_entry2(&setup.w, c, &rt, m, shard, i, sentinel_rec.as_ref());
            if only.is_some() {
                println!("replayed shard {shard} case {i} class {} through MithrilSignerRegistrationVerifier::verify -> {o}", c.class);
            }
        }
        // the leader runs 5 submissions per case: every non-splice case, every 4th splice
        let leader_case = !c.class.starts_with("splice") || i % 4 == 0;
        if (only.is_none() && leader_case) || (only.is_some() && want("MithrilSignerRegistrationLeader::register_signer", i)) {
            let o = agg::run_entry3(&setup.w, c, &rt, m, shard, i);
            if only.is_some() {
                println!("replayed shard {shard} case {i} class {} through MithrilSignerRegistrationLeader::register_signer -> {o}", c.class);
            }
        }
    }
}

fn main() {
    let args = vcore::parse_args();
    vcore::install_panic_hook();
    let mut mon = Monitor::new(&args);
    if args.prop != "C07" {
        eprintln!("mon-reg: unknown property {}", args.prop);
        std::process::exit(2);
    }
    if let Err(e) = world::self_check() {
        mon.inconclusive(&e);
    }
    if let Some(f) = &args.replay {
        // the replay file names (seed, tier, shard, entry, case index): the shard is regenerated
        // deterministically and only that case is run and judged again
        let doc: serde_json::Value = serde_json::from_str(&std::fs::read_to_string(f).expect("replay file")).expect("replay json");
        let r = &doc["replay"];
        let shard = r["shard"].as_u64().expect("shard");
        let idx = r["case_index"].as_u64().expect("case_index") as usize;
        let entry = r["entry"].as_str().unwrap_or("KeyRegWrapper::register").to_string();
        let tier = if doc["tier"].as_str() == Some("thorough") { vcore::Tier::Thorough } else { vcore::Tier::Quick };
        let seed = doc["seed"].as_u64().unwrap_or(args.seed);
        let mut m = Monitor::with(&args.prop, tier, seed);
        run_shard(shard, &mut m, Some((entry, idx)));
        // a replay never rewrites the evidence file
        if !m.inconclusive.is_empty() {
            println!("INCONCLUSIVE property={} {}", args.prop, m.inconclusive.join("; "));
            std::process::exit(2);
        }
        if m.violations() > 0 || m.known_hit_count(doc["signature"].as_str().unwrap_or("")) > 0 {
            println!("VIOLATION property={} replay={} (reproduced: {})", args.prop, f.display(), doc["signature"].as_str().unwrap_or(""));
            std::process::exit(1);
        }
        println!("HELD property={} on the replayed case (not reproduced)", args.prop);
        std::process::exit(0);
    }
    let shards = args.tier.pick(16, 256);
    vcore::run_shards(&mut mon, shards, vcore::default_threads(), |s, m| run_shard(s, m, None));
    mon.extra.insert("allow_skip_signer_certification".into(), serde_json::json!(false));
    mon.finish(RULE, ASSUMPTIONS, 500);
}

const ASSUMPTIONS: &[&str] = &[
    "Ed25519, Sum6Kes and BLS unforgeability: a value that is not in the harness' ledger of genuinely made signatures / key pairs is taken to be invalid (the adversary is structural, not cryptanalytic)",
    "reference primitives for building the material: ed25519-dalek (cold key signatures over kes_vk||issue_be||start_be), kes-summed-ed25519 (Sum6Kes keygen/update/sign), blake2 + bech32 (pool id), mithril-stm Initializer::new (BLS key generation only)",
    "mithril-common is built without allow_skip_signer_certification and without future_snark",
    "entry 2 judges against announced := chain KES period - certificate start period (saturating), the value the aggregator derives; the registrant's own kes_evolutions field must be ignored there",
];
