//! A submission (plain component values), its ground truth, and the conversion into the real
//! typed values of /repo through the public constructors.
use crate::world::{derive_pool_id, OcParts, World};
use ed25519_dalek::VerifyingKey;
use kes_summed_ed25519::kes::Sum6KesSig;
use mithril_common::crypto_helper::{
    KesEvolutions, KesPeriod, OpCert, OpCertWithoutColdVerificationKey, ProtocolOpCert,
    ProtocolSignerVerificationKeyForConcatenation, ProtocolSignerVerificationKeySignatureForConcatenation,
    SignerRegistrationParameters,
};
use mithril_stm::VerificationKeyProofOfPossessionForConcatenation;
use serde_json::{json, Value};
use std::collections::{BTreeMap, HashSet};

#[derive(Clone, Debug, PartialEq, Eq)]
pub struct Sub {
    pub oc: Option<OcParts>,
    pub kes_sig: Option<Vec<u8>>,
    /// announced KES evolution (entry 1: the `kes_evolutions` parameter; entry 2: what the
    /// registrant writes into `Signer::kes_evolutions`, which the verifier must ignore)
    pub ann: Option<u64>,
    pub vk: [u8; 96],
    pub pop: [u8; 96],
    pub claimed_party: Option<String>,
}

impl Sub {
    pub fn vkpop(&self) -> Vec<u8> {
        let mut v = self.vk.to_vec();
        v.extend_from_slice(&self.pop);
        v
    }
    pub fn to_json(&self) -> Value {
        json!({
            "opcert": self.oc.as_ref().map(|o| json!({
                "kes_vk": hex::encode(o.kes_vk), "issue_number": o.issue, "start_kes_period": o.start,
                "cert_sig": hex::encode(o.sig), "cold_vk": hex::encode(o.cold_vk)})),
            "kes_signature": self.kes_sig.as_ref().map(hex::encode),
            "announced_kes_evolutions": self.ann,
            "vk": hex::encode(self.vk), "pop": hex::encode(self.pop),
            "claimed_party_id": self.claimed_party,
        })
    }
    pub fn key_bytes(&self) -> Vec<u8> {
        self.to_json().to_string().into_bytes()
    }
}

/// Ground truth of one submission in one round.
#[derive(Clone, Debug)]
pub struct Truth {
    pub has_cert: bool,
    /// the certificate tuple was genuinely signed by the cold key it carries
    pub opcert_sig: bool,
    /// the KES signature was genuinely made by the KES key named in the certificate over exactly
    /// the submitted vk||pop bytes
    pub kes_bound: bool,
    /// true evolution of the genuine KES signature (whatever key / message it was made for)
    pub kes_t: Option<u32>,
    pub announced: Option<u64>,
    /// |t - announced| <= 1 (and t in 0..=63, which holds for every Sum6Kes signature)
    pub kes_window: bool,
    pub pop: bool,
    pub derived: Option<String>,
    pub pool_present: bool,
    pub stake: Option<u64>,
    pub fresh: bool,
}

impl Truth {
    pub fn all(&self) -> bool {
        self.has_cert && self.opcert_sig && self.kes_bound && self.kes_window && self.pop && self.pool_present && self.fresh
    }
    pub fn false_set(&self) -> String {
        let mut v = vec![];
        if !self.has_cert {
            v.push("certificate_present");
        } else {
            if !self.opcert_sig {
                v.push("opcert_signed_by_cold_key");
            }
            if !self.kes_bound {
                v.push("kes_signature_by_named_key_over_vk");
            } else if !self.kes_window {
                v.push("kes_evolution_within_one_of_announced");
            }
            if !self.pool_present {
                v.push("pool_in_stake_distribution");
            }
        }
        if !self.pop {
            v.push("proof_of_possession");
        }
        if !self.fresh {
            v.push("key_not_yet_registered");
        }
        v.join("+")
    }
    pub fn to_json(&self) -> Value {
        json!({"certificate_present": self.has_cert, "opcert_signed_by_cold_key": self.opcert_sig,
               "kes_signature_by_named_key_over_vk": self.kes_bound, "kes_true_evolution": self.kes_t,
               "announced": self.announced, "kes_evolution_within_one_of_announced": self.kes_window,
               "proof_of_possession": self.pop, "derived_pool_id": self.derived,
               "pool_in_stake_distribution": self.pool_present, "distribution_stake": self.stake,
               "key_not_yet_registered": self.fresh})
    }
}

/// `announced`: the evolution value the acceptance rule is to be judged against (entry 1: the
/// parameter; entry 2: current chain period - certificate start period).
pub fn truth(w: &World, s: &Sub, announced: Option<u64>, dist: &BTreeMap<String, u64>, registered: &HashSet<Vec<u8>>) -> Truth {
    let has_cert = s.oc.is_some();
    let opcert_sig = s.oc.as_ref().map(|o| w.genuine_oc.contains(o)).unwrap_or(false);
    let fact = s.kes_sig.as_ref().and_then(|k| w.genuine_kes.get(k));
    let kes_t = fact.map(|f| f.t);
    let kes_bound = match (&s.oc, fact) {
        (Some(o), Some(f)) => f.kes_vk == o.kes_vk && f.msg == s.vkpop(),
        _ => false,
    };
    let kes_window = match (kes_t, announced) {
        (Some(t), Some(a)) => (t as u64).abs_diff(a) <= 1,
        _ => false,
    };
    let pop = w.genuine_pop.contains(&(s.vk.to_vec(), s.pop.to_vec()));
    let derived = s.oc.as_ref().map(|o| derive_pool_id(&o.cold_vk));
    let stake = derived.as_ref().and_then(|d| dist.get(d).copied());
    Truth {
        has_cert,
        opcert_sig,
        kes_bound,
        kes_t,
        announced,
        kes_window,
        pop,
        pool_present: stake.is_some(),
        derived,
        stake,
        fresh: !registered.contains(&s.vk.to_vec()),
    }
}

/// Typed values of /repo built from the plain components. Err = the value cannot exist as a typed
/// value (invalid curve point encodings are refused by the constructors / deserializers).
pub struct Typed {
    pub opcert: Option<ProtocolOpCert>,
    pub kes_sig: Option<ProtocolSignerVerificationKeySignatureForConcatenation>,
    pub vkpop: ProtocolSignerVerificationKeyForConcatenation,
}

pub fn typed(s: &Sub) -> Result<Typed, String> {
    let opcert = match &s.oc {
        None => None,
        Some(o) => {
            let without = OpCertWithoutColdVerificationKey::try_new(&o.kes_vk, o.issue, KesPeriod(o.start), &o.sig)
                .map_err(|e| format!("opcert:{e}"))?;
            let cold = VerifyingKey::from_bytes(&o.cold_vk).map_err(|_| "cold_vk:not a curve point".to_string())?;
            Some(ProtocolOpCert::new(OpCert::from((without, cold))))
        }
    };
    let kes_sig = match &s.kes_sig {
        None => None,
        Some(k) => Some(Sum6KesSig::from_bytes(k).map_err(|e| format!("kes_sig:{e:?}"))?.into()),
    };
    let vkpop = VerificationKeyProofOfPossessionForConcatenation::from_bytes(&s.vkpop())
        .map_err(|_| "vkpop:not decodable".to_string())?
        .into();
    Ok(Typed { opcert, kes_sig, vkpop })
}

pub fn params(s: &Sub, t: &Typed) -> SignerRegistrationParameters {
    SignerRegistrationParameters {
        party_id: s.claimed_party.clone(),
        operational_certificate: t.opcert.clone(),
        verification_key_for_concatenation: t.vkpop,
        verification_key_signature_for_concatenation: t.kes_sig,
        kes_evolutions: s.ann.map(KesEvolutions),
    }
}
