//! Key material made by the harness and the ledger of everything it genuinely signed.
//!
//! Ground truth BY CONSTRUCTION: the harness owns every secret key (Ed25519 cold keys, Sum6Kes
//! keys, BLS keys). Every operational-certificate signature, KES signature and (vk, pop) pair that
//! exists in a run was made here and is recorded in a ledger; a conjunct of the C07 statement holds
//! for a submission iff the submitted VALUES are in the ledger with the right binding. Nothing of
//! the code under test is used to decide a conjunct:
//!   * opcert signature  = ed25519-dalek signature over kes_vk || issue_be64 || start_be64
//!     (Cardano's operational certificate signable), made with the cold secret key;
//!   * pool id           = bech32("pool", blake2b-224(cold_vk)), computed here;
//!   * KES signature     = kes-summed-ed25519 Sum6Kes key evolved to period t, sign(message);
//!   * (vk, pop)         = mithril-stm Initializer::new (key generation only).
use ed25519_dalek::{Signer as _, SigningKey};
use kes_summed_ed25519::kes::Sum6Kes;
use kes_summed_ed25519::traits::KesSk;
use mithril_stm::{Initializer, Parameters};
use rand_chacha::ChaCha20Rng;
use rand_core::RngCore;
use std::collections::{HashMap, HashSet};

pub const KES_MAX_PERIOD: u32 = 63; // Sum6Kes: periods 0..=63

/// blake2b-224 of the cold verification key, bech32 with hrp "pool"
pub fn derive_pool_id(cold_vk: &[u8; 32]) -> String {
    use blake2::digest::consts::U28;
    use blake2::{Blake2b, Digest};
    let mut h = Blake2b::<U28>::new();
    h.update(cold_vk);
    let d = h.finalize();
    bech32::encode::<bech32::Bech32>(bech32::Hrp::parse("pool").unwrap(), &d).unwrap()
}

pub fn derive_pool_hash_hex(cold_vk: &[u8; 32]) -> String {
    use blake2::digest::consts::U28;
    use blake2::{Blake2b, Digest};
    let mut h = Blake2b::<U28>::new();
    h.update(cold_vk);
    hex::encode(h.finalize())
}

/// A Sum6Kes key with a snapshot of its secret bytes at every period 0..=63.
pub struct KesKey {
    pub vk: [u8; 32],
    snaps: Vec<Vec<u8>>,
}

impl KesKey {
    pub fn generate(seed: [u8; 32]) -> KesKey {
        let mut buf = vec![0u8; Sum6Kes::SIZE + 4];
        let mut seed = seed;
        let (mut sk, pk) = Sum6Kes::keygen(&mut buf, &mut seed);
        let mut snaps = Vec::with_capacity(64);
        snaps.push(sk.clone_sk());
        for _ in 0..KES_MAX_PERIOD {
            sk.update().expect("Sum6Kes updates 63 times");
            snaps.push(sk.clone_sk());
        }
        assert!(sk.update().is_err(), "Sum6Kes has exactly 64 periods");
        let mut vk = [0u8; 32];
        vk.copy_from_slice(pk.as_bytes());
        KesKey { vk, snaps }
    }
    fn sign_raw(&self, t: u32, msg: &[u8]) -> Vec<u8> {
        let mut b = self.snaps[t as usize].clone();
        let sk = Sum6Kes::from_bytes(&mut b).expect("snapshot size");
        assert_eq!(sk.get_period(), t);
        sk.sign(msg).to_bytes().to_vec()
    }
}

/// The five components of an operational certificate as plain values.
#[derive(Clone, Debug, PartialEq, Eq, Hash)]
pub struct OcParts {
    pub kes_vk: [u8; 32],
    pub issue: u64,
    pub start: u64,
    pub sig: [u8; 64],
    pub cold_vk: [u8; 32],
}

pub struct Pool {
    #[allow(dead_code)]
    pub name: String,
    pub cold_sk: SigningKey,
    pub cold_vk: [u8; 32],
    pub pool_id: String,
    pub certs: Vec<usize>,
    pub bls: Vec<usize>,
}

pub struct Cert {
    pub pool: usize,
    pub kes: usize,
    pub parts: OcParts,
}

#[derive(Clone)]
pub struct Bls {
    pub vk: [u8; 96],
    pub pop: [u8; 96],
    /// stake the registrant put into its own Initializer (never transmitted; must never be recorded)
    pub claimed_stake: u64,
}

#[derive(Clone, Debug)]
pub struct KesFact {
    pub kes_vk: [u8; 32],
    pub t: u32,
    pub msg: Vec<u8>,
}

#[derive(Default)]
pub struct World {
    pub pools: Vec<Pool>,
    pub kes: Vec<KesKey>,
    pub certs: Vec<Cert>,
    pub bls: Vec<Bls>,
    pub genuine_oc: HashSet<OcParts>,
    pub genuine_kes: HashMap<Vec<u8>, KesFact>,
    pub genuine_pop: HashSet<(Vec<u8>, Vec<u8>)>,
}

pub fn opcert_signable(kes_vk: &[u8; 32], issue: u64, start: u64) -> [u8; 48] {
    let mut m = [0u8; 48];
    m[..32].copy_from_slice(kes_vk);
    m[32..40].copy_from_slice(&issue.to_be_bytes());
    m[40..48].copy_from_slice(&start.to_be_bytes());
    m
}

impl World {
    pub fn new_pool(&mut self, name: &str, rng: &mut ChaCha20Rng) -> usize {
        let mut s = [0u8; 32];
        rng.fill_bytes(&mut s);
        let cold_sk = SigningKey::from_bytes(&s);
        let cold_vk = cold_sk.verifying_key().to_bytes();
        let pool_id = derive_pool_id(&cold_vk);
        self.pools.push(Pool { name: name.to_string(), cold_sk, cold_vk, pool_id, certs: vec![], bls: vec![] });
        self.pools.len() - 1
    }
    pub fn new_kes(&mut self, rng: &mut ChaCha20Rng) -> usize {
        let mut s = [0u8; 32];
        rng.fill_bytes(&mut s);
        self.kes.push(KesKey::generate(s));
        self.kes.len() - 1
    }
    /// the cold key of `signer_pool` genuinely signs (kes_vk, issue, start)
    pub fn sign_opcert(&mut self, signer_pool: usize, kes_vk: [u8; 32], issue: u64, start: u64) -> OcParts {
        let p = &self.pools[signer_pool];
        let sig = p.cold_sk.sign(&opcert_signable(&kes_vk, issue, start)).to_bytes();
        let parts = OcParts { kes_vk, issue, start, sig, cold_vk: p.cold_vk };
        self.genuine_oc.insert(parts.clone());
        parts
    }
    pub fn new_cert(&mut self, pool: usize, kes: usize, issue: u64, start: u64) -> usize {
        let parts = self.sign_opcert(pool, self.kes[kes].vk, issue, start);
        self.certs.push(Cert { pool, kes, parts });
        let c = self.certs.len() - 1;
        self.pools[pool].certs.push(c);
        c
    }
    pub fn new_bls(&mut self, pool: usize, claimed_stake: u64, rng: &mut ChaCha20Rng) -> usize {
        let params = Parameters { m: 10, k: 3, phi_f: 0.5 };
        let init = Initializer::new(params, claimed_stake, rng);
        let b = init.get_verification_key_proof_of_possession_for_concatenation().to_bytes();
        let mut vk = [0u8; 96];
        let mut pop = [0u8; 96];
        vk.copy_from_slice(&b[..96]);
        pop.copy_from_slice(&b[96..]);
        self.genuine_pop.insert((vk.to_vec(), pop.to_vec()));
        self.bls.push(Bls { vk, pop, claimed_stake });
        let i = self.bls.len() - 1;
        self.pools[pool].bls.push(i);
        i
    }
    /// KES key `kes` at true evolution `t` genuinely signs `msg`
    pub fn sign_kes(&mut self, kes: usize, t: u32, msg: &[u8]) -> Vec<u8> {
        let sig = self.kes[kes].sign_raw(t, msg);
        self.genuine_kes
            .entry(sig.clone())
            .or_insert_with(|| KesFact { kes_vk: self.kes[kes].vk, t, msg: msg.to_vec() });
        sig
    }
}

/// fixed vector from Cardano tooling (also quoted in /repo's opcert unit test): cold key generated
/// by ChaCha20(seed 0) -> pool id. Guards the harness' own derivation.
pub fn self_check() -> Result<(), String> {
    use rand_core::SeedableRng;
    let mut rng = ChaCha20Rng::from_seed([0u8; 32]);
    let mut s = [0u8; 32];
    rng.fill_bytes(&mut s);
    let sk = SigningKey::from_bytes(&s);
    let id = derive_pool_id(&sk.verifying_key().to_bytes());
    if id != "pool1mxyec46067n3querj9cxkk0g0zlag93pf3ya9vuyr3wgkq2e6t7" {
        return Err(format!("harness pool id derivation self-check failed: {id}"));
    }
    Ok(())
}
