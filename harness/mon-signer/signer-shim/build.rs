//! Generates the crate root of the shim from /repo/mithril-signer/src/lib.rs:
//!  * inner attributes / inner doc comments are dropped (the root is `include!`d),
//!  * the `#[global_allocator]` statics and their `use` lines (with their cfg attributes) are dropped,
//!  * `mod x;` becomes `#[path = "<abs>"] mod x;`.
//! Everything else (all modules) is compiled from /repo's working tree as is.
use std::path::{Path, PathBuf};

fn main() {
    let root = std::env::var("VERIF_SIGNER_SRC").unwrap_or_else(|_| "/repo/mithril-signer/src".to_string());
    let root = PathBuf::from(root);
    println!("cargo:rerun-if-env-changed=VERIF_SIGNER_SRC");
    println!("cargo:rerun-if-changed={}", root.join("lib.rs").display());
    let src = std::fs::read_to_string(root.join("lib.rs")).expect("read signer lib.rs");
    let mut out = String::new();
    // pending outer attributes (possibly multi-line) that belong to the next item
    let mut pending: Vec<String> = vec![];
    let mut in_attr = false;
    let mut attr_buf = String::new();
    let mut skip_tests_mod = false;
    let mut depth = 0i32;
    for line in src.lines() {
        let t = line.trim();
        if skip_tests_mod {
            depth += t.matches('{').count() as i32;
            depth -= t.matches('}').count() as i32;
            if depth <= 0 {
                skip_tests_mod = false;
            }
            continue;
        }
        if in_attr {
            attr_buf.push_str(line);
            attr_buf.push('\n');
            if t.ends_with(")]") {
                in_attr = false;
                pending.push(std::mem::take(&mut attr_buf));
            }
            continue;
        }
        if t.starts_with("#![") || t.starts_with("//!") {
            continue;
        }
        if t.starts_with("#[") {
            if t.ends_with(']') {
                pending.push(format!("{line}\n"));
            } else {
                in_attr = true;
                attr_buf = format!("{line}\n");
            }
            continue;
        }
        let is_alloc = t.starts_with("use tikv_jemallocator")
            || t.starts_with("use mimalloc")
            || (t.starts_with("static GLOBAL"))
            || pending.iter().any(|a| a.contains("global_allocator"));
        if is_alloc {
            pending.clear();
            continue;
        }
        if pending.iter().any(|a| a.contains("cfg(test)")) && t.starts_with("mod ") && t.ends_with('{') {
            pending.clear();
            skip_tests_mod = true;
            depth = 1;
            continue;
        }
        let decl = t.strip_prefix("pub mod ").or_else(|| t.strip_prefix("mod "));
        if let Some(rest) = decl {
            if let Some(name) = rest.strip_suffix(';') {
                let name = name.trim();
                let p = module_path(&root, name);
                for a in pending.drain(..) {
                    out.push_str(&a);
                }
                out.push_str(&format!("#[path = \"{}\"]\n{line}\n", p.display()));
                println!("cargo:rerun-if-changed={}", p.display());
                continue;
            }
        }
        for a in pending.drain(..) {
            out.push_str(&a);
        }
        out.push_str(line);
        out.push('\n');
    }
    let dest = PathBuf::from(std::env::var("OUT_DIR").unwrap()).join("signer_root.rs");
    std::fs::write(dest, out).unwrap();
}

fn module_path(root: &Path, name: &str) -> PathBuf {
    let f = root.join(format!("{name}.rs"));
    if f.exists() {
        f
    } else {
        root.join(name).join("mod.rs")
    }
}
