//! The aggregator side: mon-agg's `Sim` (the REAL aggregator wired by its own DependenciesBuilder,
//! file-backed sqlite, doubles for the outside world only). `Sim::build` / `Sim::restart` of mon-agg
//! hard-wire the list of signed entity types, so the ~40 lines of wiring are repeated here with a
//! configurable list (the `Sim` struct itself and all its helpers are mon-agg's).
use anyhow::anyhow;
use std::sync::{Arc, RwLock};

use mithril_aggregator::{
    dependency_injection::DependenciesBuilder, services::FakeSnapshotter, AggregatorRuntime, DumbUploader,
    ServeCommandConfiguration, ServeCommandDependenciesContainer,
};
use mithril_cardano_node_chain::test::double::{DumbBlockScanner, FakeChainObserver};
use mithril_cardano_node_internal_database::test::double::{DumbImmutableDigester, DumbImmutableFileObserver};
use mithril_common::{
    entities::{
        BlockNumber, BlockNumberOffset, CardanoBlocksTransactionsSigningConfig, CardanoTransactionsSigningConfig,
        Epoch, SignedEntityTypeDiscriminants, SupportedEra, TimePoint,
    },
    test::double::Dummy,
    StdResult,
};
use mithril_era::{adapters::EraReaderDummyAdapter, EraMarker, EraReader};
use mon_agg::sim::{discard_logger, Sim, SimConfig, World};
use warp::Filter;

pub type Routes = warp::filters::BoxedFilter<(Box<dyn warp::Reply>,)>;
pub type SharedRoutes = Arc<RwLock<Option<Routes>>>;

pub fn configuration(cfg: &SimConfig, types: &[SignedEntityTypeDiscriminants]) -> ServeCommandConfiguration {
    let snapshot_dir = cfg.data_dir.join("snapshots");
    let _ = std::fs::create_dir_all(&snapshot_dir);
    ServeCommandConfiguration {
        protocol_parameters: Some(cfg.protocol_parameters.clone()),
        signed_entity_types: Some(types.iter().map(|d| d.to_string()).collect::<Vec<_>>().join(",")),
        data_stores_directory: cfg.data_dir.join("stores"),
        cardano_transactions_signing_config: Some(CardanoTransactionsSigningConfig {
            security_parameter: BlockNumberOffset(0),
            step: BlockNumber(cfg.tx_step),
        }),
        cardano_blocks_transactions_signing_config: Some(CardanoBlocksTransactionsSigningConfig {
            security_parameter: BlockNumberOffset(0),
            step: BlockNumber(cfg.blocks_step),
        }),
        ..ServeCommandConfiguration::new_sample(snapshot_dir)
    }
}

async fn wire(
    cfg: &SimConfig,
    world: &World,
    types: &[SignedEntityTypeDiscriminants],
) -> StdResult<(DependenciesBuilder, ServeCommandDependenciesContainer, AggregatorRuntime)> {
    let configuration = configuration(cfg, types);
    let snapshotter = Arc::new(FakeSnapshotter::new(cfg.data_dir.join("snapshots").join("fake_snapshots")));
    let mut b = DependenciesBuilder::new(discard_logger(), Arc::new(configuration));
    b.snapshot_uploader = Some(world.snapshot_uploader.clone());
    b.chain_observer = Some(world.chain_observer.clone());
    b.immutable_file_observer = Some(world.immutable_file_observer.clone());
    b.immutable_digester = Some(world.digester.clone());
    b.snapshotter = Some(snapshotter);
    b.era_reader = Some(Arc::new(EraReader::new(world.era_reader_adapter.clone())));
    b.block_scanner = Some(world.block_scanner.clone());
    let deps = b.build_serve_dependencies_container().await.map_err(|e| anyhow!("{e:?}"))?;
    let runtime = b.create_aggregator_runner().await.map_err(|e| anyhow!("{e:?}"))?;
    Ok((b, deps, runtime))
}

pub struct Agg {
    pub sim: Sim,
    pub types: Vec<SignedEntityTypeDiscriminants>,
    /// the real warp router of the aggregator, shared with the HTTP front (replaced at restarts)
    pub routes: SharedRoutes,
}

impl Agg {
    pub async fn build(cfg: SimConfig, start: TimePoint, types: Vec<SignedEntityTypeDiscriminants>) -> StdResult<Agg> {
        let configuration = configuration(&cfg, &types);
        let _ = std::fs::create_dir_all(cfg.data_dir.join("stores"));
        let network = configuration.network.clone();
        let immutable_file_observer = Arc::new(DumbImmutableFileObserver::new());
        immutable_file_observer.shall_return(Some(start.immutable_file_number)).await;
        let world = World {
            snapshot_uploader: Arc::new(DumbUploader::default()),
            chain_observer: Arc::new(FakeChainObserver::new(Some(start))),
            immutable_file_observer,
            digester: Arc::new(DumbImmutableDigester::default()),
            era_reader_adapter: Arc::new(EraReaderDummyAdapter::from_markers(vec![EraMarker::new(
                &SupportedEra::dummy().to_string(),
                Some(Epoch(0)),
            )])),
            block_scanner: Arc::new(DumbBlockScanner::new()),
            network,
        };
        let (builder, deps, runtime) = wire(&cfg, &world, &types).await?;
        let sim = Sim { cfg, world, deps, runtime, builder, restarts: 0 };
        let mut a = Agg { sim, types, routes: Arc::new(RwLock::new(None)) };
        a.refresh_routes().await?;
        Ok(a)
    }

    pub async fn refresh_routes(&mut self) -> StdResult<()> {
        let r = self.sim.builder.create_http_routes().await.map_err(|e| anyhow!("{e:?}"))?;
        let boxed: Routes = r.map(|x| Box::new(x) as Box<dyn warp::Reply>).boxed();
        *self.routes.write().unwrap() = Some(boxed);
        Ok(())
    }

    /// clean restart of the aggregator process on its own files
    pub async fn restart(&mut self) -> StdResult<()> {
        *self.routes.write().unwrap() = None;
        self.sim.builder.drop_sqlite_connections().await;
        let (builder, deps, runtime) = wire(&self.sim.cfg, &self.sim.world, &self.types).await?;
        self.sim.builder = builder;
        self.sim.deps = deps;
        self.sim.runtime = runtime;
        self.sim.restarts += 1;
        self.refresh_routes().await
    }

    /// epoch the aggregator's epoch service currently works with (None: not initialised yet)
    pub async fn epoch_of_current_data(&mut self) -> Option<u64> {
        let es = self.sim.builder.get_epoch_service().await.ok()?;
        let es = es.read().await;
        es.epoch_of_current_data().ok().map(|e| *e)
    }
}
