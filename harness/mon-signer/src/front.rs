//! The network between the signers and the aggregator: a loopback HTTP listener in front of the
//! aggregator's REAL warp router. The signers talk to it with their REAL `AggregatorHttpClient`
//! (which implements the signer's `SignersRegistrationRetriever`, `SignerRegistrationPublisher`,
//! `SignaturePublisher`, and feeds the real `HttpMithrilNetworkConfigurationProvider`).
//! The front is the fault injector (drop the request / deliver but lose the reply / serve a stale
//! epoch-settings reply / aggregator down) and the boundary event log.
//! The signers' HTTP clients are the ones the signer's own `DependenciesBuilder::build()` makes: they
//! carry nothing that names the signer. The front therefore opens ONE loopback listener (port) PER
//! real signer -- `aggregator_endpoint` of signer i is the URL of listener i -- and all listeners
//! share one state (fault plans, log, caches); a request is tagged with the index of the listener
//! it came in through.
use crate::agg::SharedRoutes;
use serde_json::{json, Value};
use std::collections::BTreeMap;
use std::convert::Infallible;
use std::sync::atomic::{AtomicBool, AtomicU64, Ordering};
use std::sync::{Arc, Mutex};
use warp::http::{HeaderMap, Method, Response, StatusCode};
use warp::Filter;

#[derive(Clone, Copy, Debug, PartialEq, Eq, PartialOrd, Ord)]
pub enum ReqKind {
    Settings,
    ProtoConfig,
    RegisterSigner,
    RegisterSignature,
    Other,
}

impl ReqKind {
    pub fn of(method: &Method, path: &str) -> ReqKind {
        let p = path.trim_start_matches("/aggregator/");
        if method == Method::GET && p == "epoch-settings" {
            ReqKind::Settings
        } else if method == Method::GET && p.starts_with("protocol-configuration/") {
            ReqKind::ProtoConfig
        } else if method == Method::POST && p == "register-signer" {
            ReqKind::RegisterSigner
        } else if method == Method::POST && p == "register-signatures" {
            ReqKind::RegisterSignature
        } else {
            ReqKind::Other
        }
    }
    pub fn name(&self) -> &'static str {
        match self {
            ReqKind::Settings => "epoch-settings",
            ReqKind::ProtoConfig => "protocol-configuration",
            ReqKind::RegisterSigner => "register-signer",
            ReqKind::RegisterSignature => "register-signatures",
            ReqKind::Other => "other",
        }
    }
}

#[derive(Clone, Debug)]
pub enum FaultKind {
    /// the request never reaches the aggregator; the signer gets an error
    Drop,
    /// the request is delivered and handled; the signer gets an error instead of the reply
    LoseReply,
    /// (epoch-settings only) a genuine reply of an earlier epoch is served again
    Stale(Vec<u8>),
    /// (register-signer only) a genuine "registration round not yet opened" reply (550) of the
    /// aggregator is served again; the request is not delivered
    RoundNotOpen(Vec<u8>),
}

impl FaultKind {
    pub fn name(&self) -> &'static str {
        match self {
            FaultKind::Drop => "drop",
            FaultKind::LoseReply => "lose-reply",
            FaultKind::Stale(_) => "stale-settings",
            FaultKind::RoundNotOpen(_) => "round-not-open",
        }
    }
}

#[derive(Clone, Debug)]
pub struct PlannedFault {
    /// None = any request kind
    pub on: Option<ReqKind>,
    pub kind: FaultKind,
    pub remaining: u32,
}

#[derive(Clone, Debug)]
pub struct HttpEvent {
    pub seq: u64,
    pub signer: Option<usize>,
    pub kind: ReqKind,
    pub path: String,
    pub body: Value,
    pub fault: Option<&'static str>,
    pub delivered: bool,
    pub real_status: Option<u16>,
    pub real_body: String,
    pub returned_status: u16,
}

impl HttpEvent {
    pub fn to_json(&self) -> Value {
        json!({"seq": self.seq, "signer": self.signer, "request": self.kind.name(), "path": self.path, "body": self.body,
               "fault": self.fault, "delivered": self.delivered, "aggregator_status": self.real_status,
               "aggregator_body": self.real_body, "returned_status": self.returned_status})
    }
}

pub struct FrontState {
    pub routes: SharedRoutes,
    pub log: Mutex<Vec<HttpEvent>>,
    pub plans: Mutex<BTreeMap<usize, Vec<PlannedFault>>>,
    pub agg_down: AtomicBool,
    /// genuine 200 replies of /epoch-settings, by the epoch they announce
    pub settings_cache: Mutex<BTreeMap<u64, Vec<u8>>>,
    /// a genuine 550 reply of POST /register-signer
    pub round_not_open_reply: Mutex<Option<Vec<u8>>>,
    /// what the aggregator announced in its genuine 200 replies of /epoch-settings since the last
    /// drain: (epoch of the reply, its `signer_registration_protocol` = the protocol parameters of the
    /// registration round of that epoch)
    pub announcements: Mutex<Vec<(u64, Value)>>,
    pub seq: AtomicU64,
}

/// (epoch, registration protocol parameters) of a genuine /epoch-settings reply
pub fn announcement_of(body: &[u8]) -> Option<(u64, Value)> {
    let v: Value = serde_json::from_slice(body).ok()?;
    let e = v["epoch"].as_u64()?;
    Some((e, v["signer_registration_protocol"].clone()))
}

impl FrontState {
    pub fn new(routes: SharedRoutes) -> Arc<FrontState> {
        Arc::new(FrontState {
            routes,
            log: Mutex::new(vec![]),
            plans: Mutex::new(BTreeMap::new()),
            agg_down: AtomicBool::new(false),
            settings_cache: Mutex::new(BTreeMap::new()),
            round_not_open_reply: Mutex::new(None),
            announcements: Mutex::new(vec![]),
            seq: AtomicU64::new(0),
        })
    }

    pub fn plan(&self, signer: usize, faults: Vec<PlannedFault>) {
        self.plans.lock().unwrap().insert(signer, faults);
    }

    pub fn clear_plan(&self, signer: usize) {
        self.plans.lock().unwrap().remove(&signer);
    }

    pub fn drain(&self) -> Vec<HttpEvent> {
        std::mem::take(&mut *self.log.lock().unwrap())
    }

    pub fn drain_announcements(&self) -> Vec<(u64, Value)> {
        std::mem::take(&mut *self.announcements.lock().unwrap())
    }

    fn take_fault(&self, signer: Option<usize>, kind: ReqKind) -> Option<FaultKind> {
        let s = signer?;
        let mut plans = self.plans.lock().unwrap();
        let list = plans.get_mut(&s)?;
        for f in list.iter_mut() {
            if f.remaining == 0 {
                continue;
            }
            let applies = match (&f.kind, f.on) {
                (FaultKind::Stale(_), _) => kind == ReqKind::Settings,
                (FaultKind::RoundNotOpen(_), _) => kind == ReqKind::RegisterSigner,
                (_, None) => true,
                (_, Some(k)) => k == kind,
            };
            if applies {
                f.remaining -= 1;
                return Some(f.kind.clone());
            }
        }
        None
    }

    /// hand a request to the aggregator's real router (in process)
    pub async fn forward(&self, method: &Method, path: &str, headers: &HeaderMap, body: &[u8]) -> Option<(u16, HeaderMap, Vec<u8>)> {
        let routes = self.routes.read().unwrap().clone()?;
        let mut rb = warp::test::request().method(method.as_str()).path(path);
        for (k, v) in headers.iter() {
            let name = k.as_str();
            // hop-by-hop / transport headers are not forwarded; the payload is passed decoded
            if ["host", "content-length", "connection", "accept-encoding", "transfer-encoding"].contains(&name) {
                continue;
            }
            if let Ok(s) = v.to_str() {
                rb = rb.header(name, s);
            }
        }
        // warp's test driver refuses to run inside the scope of another warp request (the front's own
        // handler): run it as a task of its own
        let rb = rb.body(body.to_vec());
        let resp = tokio::spawn(async move { rb.reply(&routes).await }).await.ok()?;
        if resp.status().as_u16() == 550 && path.ends_with("/register-signer") {
            *self.round_not_open_reply.lock().unwrap() = Some(resp.body().to_vec());
        }
        Some((resp.status().as_u16(), resp.headers().clone(), resp.body().to_vec()))
    }

    /// `signer`: index of the listener the request came in through (= the real signer it belongs to)
    async fn handle(self: Arc<Self>, signer: Option<usize>, method: Method, path: String, headers: HeaderMap, body: Vec<u8>) -> Response<Vec<u8>> {
        let kind = ReqKind::of(&method, &path);
        let seq = self.seq.fetch_add(1, Ordering::SeqCst);
        let body_json: Value = if body.is_empty() { Value::Null } else { serde_json::from_slice(&body).unwrap_or(Value::Null) };
        let mut ev = HttpEvent { seq, signer, kind, path: path.clone(), body: body_json, fault: None, delivered: false, real_status: None, real_body: String::new(), returned_status: 0 };
        let error_reply = |code: u16, why: &str| Response::builder().status(StatusCode::from_u16(code).unwrap()).body(why.as_bytes().to_vec()).unwrap();
        if self.agg_down.load(Ordering::SeqCst) {
            ev.fault = Some("aggregator-down");
            ev.returned_status = 503;
            self.log.lock().unwrap().push(ev);
            return error_reply(503, "aggregator down (injected)");
        }
        let fault = self.take_fault(signer, kind);
        match &fault {
            Some(FaultKind::Drop) => {
                ev.fault = Some("drop");
                ev.returned_status = 503;
                self.log.lock().unwrap().push(ev);
                return error_reply(503, "request dropped (injected)");
            }
            Some(FaultKind::Stale(b)) => {
                ev.fault = Some("stale-settings");
                ev.returned_status = 200;
                ev.real_body = String::from_utf8_lossy(b).chars().take(160).collect();
                self.log.lock().unwrap().push(ev);
                return Response::builder().status(200).header("content-type", "application/json").body(b.clone()).unwrap();
            }
            Some(FaultKind::RoundNotOpen(b)) => {
                ev.fault = Some("round-not-open");
                ev.returned_status = 550;
                ev.real_body = String::from_utf8_lossy(b).chars().take(160).collect();
                self.log.lock().unwrap().push(ev);
                return Response::builder().status(550).header("content-type", "application/json").body(b.clone()).unwrap();
            }
            _ => {}
        }
        let Some((status, rheaders, rbody)) = self.forward(&method, &path, &headers, &body).await else {
            ev.fault = Some("aggregator-restarting");
            ev.returned_status = 503;
            self.log.lock().unwrap().push(ev);
            return error_reply(503, "aggregator restarting");
        };
        ev.delivered = true;
        ev.real_status = Some(status);
        ev.real_body = String::from_utf8_lossy(&rbody).chars().take(300).collect();
        if kind == ReqKind::Settings && status == 200 {
            if let Ok(v) = serde_json::from_slice::<Value>(&rbody) {
                if let Some(e) = v["epoch"].as_u64() {
                    self.settings_cache.lock().unwrap().insert(e, rbody.clone());
                    self.announcements.lock().unwrap().push((e, v["signer_registration_protocol"].clone()));
                }
            }
        }
        if let Some(FaultKind::LoseReply) = fault {
            ev.fault = Some("lose-reply");
            ev.returned_status = 504;
            self.log.lock().unwrap().push(ev);
            return error_reply(504, "reply lost (injected)");
        }
        ev.returned_status = status;
        self.log.lock().unwrap().push(ev);
        let mut rb = Response::builder().status(StatusCode::from_u16(status).unwrap_or(StatusCode::INTERNAL_SERVER_ERROR));
        for (k, v) in rheaders.iter() {
            if ["content-length", "transfer-encoding", "connection"].contains(&k.as_str()) {
                continue;
            }
            rb = rb.header(k, v);
        }
        rb.body(rbody).unwrap()
    }
}

pub struct Front {
    pub state: Arc<FrontState>,
    /// `urls[i]`: the aggregator endpoint of real signer i (its own listener)
    pub urls: Vec<String>,
    tasks: Vec<tokio::task::JoinHandle<()>>,
}

impl Front {
    /// one loopback listener per real signer, all of them in front of the same router and sharing
    /// the same state
    pub async fn spawn(routes: SharedRoutes, n_signers: usize) -> anyhow::Result<Front> {
        let state = FrontState::new(routes);
        let mut urls = vec![];
        let mut tasks = vec![];
        for signer in 0..n_signers {
            let listener = tokio::net::TcpListener::bind(("127.0.0.1", 0)).await?;
            let addr = listener.local_addr()?;
            let st = state.clone();
            let filter = warp::any()
                .and(warp::method())
                .and(warp::path::full())
                .and(warp::header::headers_cloned())
                .and(warp::body::bytes())
                .and_then(move |method: Method, path: warp::path::FullPath, headers: HeaderMap, body: warp::hyper::body::Bytes| {
                    let st = st.clone();
                    async move { Ok::<_, Infallible>(st.handle(Some(signer), method, path.as_str().to_string(), headers, body.to_vec()).await) }
                });
            tasks.push(tokio::spawn(async move {
                warp::serve(filter).incoming(listener).run().await;
            }));
            urls.push(format!("http://127.0.0.1:{}/aggregator", addr.port()));
        }
        Ok(Front { state, urls, tasks })
    }
}

impl Drop for Front {
    fn drop(&mut self) {
        for t in &self.tasks {
            t.abort();
        }
    }
}
