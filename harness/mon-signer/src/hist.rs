//! Histories over N real signers + scripted honest co-signers + the real aggregator, the boundary
//! log, and the C20 history checker (E1-E4).
use crate::agg::Agg;
use crate::front::{announcement_of, FaultKind, Front, HttpEvent, PlannedFault, ReqKind};
use crate::model::{sigma_hex, Announced, Model, Registration, SigVerdict, SIGNING_OFFSET};
use crate::signer::{SignerNode, SignerSettings};
use anyhow::{anyhow, Context};
use mithril_common::crypto_helper::{KesPeriod, KesSigner, KesSignerStandard, ProtocolInitializer};
use mithril_common::entities::*;
use mithril_common::messages::{RegisterSignatureMessageHttp, SignedEntityTypeMessage, TryToMessageAdapter};
use mithril_common::protocol::{SignerBuilder, ToMessage};
use mithril_common::test::builder::{MithrilFixture, MithrilFixtureBuilder};
use mithril_common::StdResult;
use mithril_signer::{SignerState, ToRegisterSignerMessageAdapter};
use mon_agg::hist::set_key;
use mon_agg::sim::{self, SimConfig, Snapshot};
use rand_chacha::ChaCha20Rng;
use rand_core::{RngCore, SeedableRng};
use serde_json::{json, Value};
use std::collections::{BTreeMap, BTreeSet};
use std::path::PathBuf;
use std::sync::atomic::Ordering;
use std::sync::Arc;
use vcore::rnd;
use vcore::Monitor;
use warp::http::{HeaderMap, Method};

/// number of consecutive undisturbed ticks within one epoch after which an eligible signer must have signed
pub const PROGRESS_BOUND: u32 = 8;

#[derive(Clone, Debug)]
pub struct FaultSpec {
    pub on: Option<ReqKind>,
    pub kind: &'static str,
    pub n: u32,
}

#[derive(Clone, Debug)]
pub enum Ev {
    AggTick,
    SignerTick { i: usize, faults: Vec<FaultSpec> },
    /// `lag`: (real signer, number of its ticks) whose own Cardano node stays at the old epoch (old
    /// stake distribution, old chain point) for that many of its ticks before it catches up
    EpochUp { restake: bool, lag: Vec<(usize, u32)> },
    NewImmutable,
    Blocks(u64),
    SignerStop(usize),
    SignerStart(usize),
    SignerRestart(usize),
    /// `parameters`: the operator changed the protocol parameters (k, m, phi_f) of the aggregator's
    /// configuration before starting it again
    AggRestart { parameters: Option<(u64, u64, f64)> },
    AggDown(bool),
    ScriptedRegister(usize),
    ScriptedSign(usize),
}

impl Ev {
    pub fn kind(&self) -> &'static str {
        match self {
            Ev::AggTick => "aggregator-tick",
            Ev::SignerTick { faults, .. } if faults.is_empty() => "signer-tick",
            Ev::SignerTick { .. } => "signer-tick-with-faults",
            Ev::EpochUp { restake: false, lag } if lag.is_empty() => "epoch+1",
            Ev::EpochUp { restake: true, lag } if lag.is_empty() => "epoch+1-with-new-stakes",
            Ev::EpochUp { restake: false, .. } => "epoch+1-with-a-lagging-signer-node",
            Ev::EpochUp { restake: true, .. } => "epoch+1-with-new-stakes-and-a-lagging-signer-node",
            Ev::NewImmutable => "new-immutable",
            Ev::Blocks(_) => "new-blocks",
            Ev::SignerStop(_) => "signer-stop",
            Ev::SignerStart(_) => "signer-start",
            Ev::SignerRestart(_) => "signer-restart",
            Ev::AggRestart { parameters: None } => "aggregator-restart",
            Ev::AggRestart { parameters: Some(_) } => "aggregator-restart-with-changed-protocol-parameters",
            Ev::AggDown(true) => "aggregator-down",
            Ev::AggDown(false) => "aggregator-up-again",
            Ev::ScriptedRegister(_) => "scripted-register",
            Ev::ScriptedSign(_) => "scripted-sign",
        }
    }
}

#[derive(Default)]
pub struct BeaconRec {
    pub sigmas: BTreeSet<String>,
    pub sends: u32,
    pub acked: u32,
    pub under_fault: bool,
}

pub struct Unacked {
    pub beacon: String,
    pub time_point: TimePoint,
    pub step: usize,
}

#[derive(Default)]
pub struct PerSigner {
    pub beacons: BTreeMap<String, BeaconRec>,
    pub unacked: Option<Unacked>,
    pub streak: u32,
    pub streak_epoch: u64,
    pub restarted_in_epoch: Option<u64>,
    pub sent_in_epoch: BTreeMap<u64, u32>,
    pub progress_reported: BTreeSet<u64>,
    pub disturbed: bool,
    pub last_error: Option<String>,
    pub registration_attempts: BTreeMap<u64, u32>,
}

pub struct PendingBuffered {
    pub signer: usize,
    pub party: String,
    pub set: SignedEntityType,
    pub sigma: String,
    pub signed_message: String,
    pub step: usize,
}

pub struct Scripted {
    pub fixture_idx: usize,
    pub party: String,
    /// protocol initializers by chain epoch of registration
    pub initializers: BTreeMap<u64, ProtocolInitializer>,
    pub kes: Arc<dyn KesSigner>,
    pub signed: BTreeSet<String>,
}

pub struct Run {
    pub agg: Agg,
    pub front: Front,
    pub fixture: MithrilFixture,
    pub signers: Vec<SignerNode>,
    pub scripted: Vec<Scripted>,
    pub model: Model,
    pub start_epoch: u64,
    pub chain_epoch: u64,
    pub step: usize,
    pub log: Vec<Value>,
    pub schedule: Vec<String>,
    pub snap: Snapshot,
    pub per: Vec<PerSigner>,
    pub pending_buffered: Vec<PendingBuffered>,
    pub agg_down: bool,
    pub any_disturbance: bool,
    pub types: Vec<SignedEntityTypeDiscriminants>,
    pub hid: String,
    pub key_rng: ChaCha20Rng,
    pub base_stakes: BTreeMap<String, u64>,
    /// (chain epoch, step, new parameters) of the restarts of the aggregator with changed parameters
    pub parameter_changes: Vec<(u64, usize, ProtocolParameters)>,
    pub lag_windows: u32,
}

fn state_label(s: &Option<SignerState>) -> String {
    match s {
        None => "down".into(),
        Some(SignerState::Init) => "Init".into(),
        Some(SignerState::Unregistered { epoch }) => format!("Unregistered({})", **epoch),
        Some(SignerState::ReadyToSign { epoch }) => format!("ReadyToSign({})", **epoch),
        Some(SignerState::RegisteredNotAbleToSign { epoch }) => format!("RegisteredNotAbleToSign({})", **epoch),
    }
}

fn state_kind(s: &Option<SignerState>) -> &'static str {
    match s {
        None => "down",
        Some(SignerState::Init) => "Init",
        Some(SignerState::Unregistered { .. }) => "Unregistered",
        Some(SignerState::ReadyToSign { .. }) => "ReadyToSign",
        Some(SignerState::RegisteredNotAbleToSign { .. }) => "RegisteredNotAbleToSign",
    }
}

fn short(s: &str, n: usize) -> String {
    s.chars().take(n).collect()
}

/// compact form of a boundary event for the history log
fn compact(ev: &HttpEvent) -> Value {
    let mut v = json!({"seq": ev.seq, "signer": ev.signer, "request": ev.kind.name(), "fault": ev.fault, "delivered": ev.delivered,
        "aggregator_status": ev.real_status, "returned_status": ev.returned_status});
    match ev.kind {
        ReqKind::RegisterSigner => {
            v["epoch"] = ev.body["epoch"].clone();
            v["verification_key"] = json!(short(ev.body["verification_key"].as_str().unwrap_or(""), 24));
        }
        ReqKind::RegisterSignature => {
            v["entity_type"] = ev.body["entity_type"].clone();
            v["sigma"] = json!(short(&sigma_hex(ev.body["signature"].as_str().unwrap_or("")), 24));
            v["indexes"] = json!(ev.body["indexes"].as_array().map(|a| a.len()).unwrap_or(0));
            v["signed_message"] = ev.body["signed_message"].clone();
        }
        ReqKind::ProtoConfig => v["path"] = json!(ev.path),
        ReqKind::Settings => {
            if let Ok(b) = serde_json::from_str::<Value>(&ev.real_body) {
                v["announced_epoch"] = b["epoch"].clone();
            } else if let Some(p) = ev.real_body.find("\"epoch\":") {
                v["announced_epoch"] = json!(ev.real_body[p + 8..].chars().take_while(|c| c.is_ascii_digit()).collect::<String>());
            }
        }
        ReqKind::Other => v["path"] = json!(ev.path),
    }
    if ev.delivered && !matches!(ev.real_status, Some(200) | Some(201) | Some(202)) {
        v["aggregator_body"] = json!(short(&ev.real_body, 200));
    }
    v
}

impl Run {
    pub async fn start(dir: PathBuf, rng: &mut ChaCha20Rng, hid: &str, types: Vec<SignedEntityTypeDiscriminants>, sizes: Option<(usize, usize)>) -> StdResult<Run> {
        let n_real = 1 + rnd::usize_below(rng, 3);
        let n_scripted = match rnd::below(rng, 10) {
            0..=1 => 0,
            2..=6 => 1,
            _ => 2,
        };
        let (n_real, n_scripted) = sizes.unwrap_or((n_real, n_scripted));
        let n = n_real + n_scripted;
        let pp = ProtocolParameters { k: 3 + rnd::below(rng, 3), m: 60 + rnd::below(rng, 60), phi_f: 0.95 };
        let cfg = SimConfig { data_dir: dir.join("aggregator"), protocol_parameters: pp.clone(), tx_step: 30, blocks_step: 15, types: mon_agg::sim::all_types() };
        let start_epoch = 2 + rnd::below(rng, 3);
        let start = TimePoint {
            epoch: Epoch(start_epoch),
            immutable_file_number: 1,
            chain_point: ChainPoint { slot_number: SlotNumber(10), block_number: BlockNumber(100), block_hash: "block_hash-100".into() },
        };
        let mut agg = Agg::build(cfg, start, types.clone()).await?;
        let fixture = MithrilFixtureBuilder::default().with_signers(n).with_protocol_parameters(pp.clone()).build();
        agg.sim.init_genesis(&fixture).await?;
        agg.sim.update_digester().await?;
        // the node already holds the last blocks before the start point
        agg.sim.serve_blocks(91, 100, 10);
        // one listener of the front per real signer: the signers' own HTTP clients carry nothing that names them
        let front = Front::spawn(agg.routes.clone(), n_real).await.with_context(|| "cannot bind the loopback listeners of the front")?;

        // model seeds: what the aggregator holds for the genesis epochs = the fixture's keys
        let mut model = Model::new(pp.clone());
        let base_stakes: BTreeMap<String, u64> = fixture.signers_with_stake().iter().map(|s| (s.party_id.clone(), s.stake)).collect();
        for c in [start_epoch - 2, start_epoch - 1, start_epoch] {
            model.stakes_at.insert(c, base_stakes.clone());
        }
        // the keys of the genesis epochs (the fixture's) were made with the fixture's parameters; every
        // later round's parameters are learnt from the aggregator's announcements
        for c in [start_epoch - 2, start_epoch - 1] {
            model.announce(c, pp.clone());
        }
        let fixtures = fixture.signers_fixture();
        let mut signers = vec![];
        let mut per = vec![];
        let stake_distribution: StakeDistribution = fixture.stake_distribution();
        for i in 0..n_real {
            let f = &fixtures[i];
            let settings = SignerSettings {
                publish_attempts: 1 + rnd::below(rng, 3) as u8,
                retention: if rnd::chance(rng, 1, 2) { None } else { Some(3 + rnd::usize_below(rng, 3)) },
            };
            let mut node = SignerNode::new(i, f, dir.join(format!("signer-{i}")), front.urls[i].clone(), settings)?;
            // signer 0 always was around before the history starts; the others usually
            let seeded = i == 0 || rnd::chance(rng, 3, 4);
            if seeded {
                // the key it registered during the epoch before the genesis epoch (the aggregator holds the
                // fixture's keys for the genesis epochs); nothing can be signed at the genesis epoch itself
                node.seed_stores(&[(Epoch(start_epoch), f.protocol_initializer.clone(), stake_distribution.clone())]).await?;
            }
            for c in [start_epoch - 1] {
                let signer: Signer = f.signer_with_stake.clone().into();
                model.add(Registration {
                    party: signer.party_id.clone(),
                    sent_in_epoch: c,
                    message_epoch: c + 1,
                    vk_hex: signer.verification_key_for_concatenation.to_json_hex().unwrap_or_default(),
                    signer,
                    acked_to_sender: seeded,
                    step: 0,
                    origin: "genesis-seed",
                });
            }
            node.block_scanner.add_forwards(vec![(91..=100u64)
                .map(|bn| mithril_cardano_node_chain::entities::ScannedBlock::new(format!("block_hash-{bn}"), BlockNumber(bn), SlotNumber(bn - 90), vec![format!("tx_hash-{bn}-1")]))
                .collect()]);
            node.sync_node(&agg.sim.world).await?;
            node.start(&agg.sim.world).await?;
            signers.push(node);
            per.push(PerSigner::default());
        }
        let mut scripted = vec![];
        for j in n_real..n {
            let f = &fixtures[j];
            let signer: Signer = f.signer_with_stake.clone().into();
            let mut initializers = BTreeMap::new();
            for c in [start_epoch - 2, start_epoch - 1] {
                initializers.insert(c, f.protocol_initializer.clone());
                model.add(Registration {
                    party: signer.party_id.clone(),
                    sent_in_epoch: c,
                    message_epoch: c + 1,
                    vk_hex: signer.verification_key_for_concatenation.to_json_hex().unwrap_or_default(),
                    signer: signer.clone(),
                    acked_to_sender: true,
                    step: 0,
                    origin: "genesis-seed",
                });
            }
            let kes = Arc::new(KesSignerStandard::new(
                f.kes_secret_key_path().ok_or_else(|| anyhow!("no kes key"))?.to_path_buf(),
                f.operational_certificate_path().ok_or_else(|| anyhow!("no opcert"))?.to_path_buf(),
            )) as Arc<dyn KesSigner>;
            scripted.push(Scripted { fixture_idx: j, party: signer.party_id.clone(), initializers, kes, signed: BTreeSet::new() });
        }
        // before its first tick the aggregator has not opened a registration round: a registration sent
        // now yields the genuine "round not yet opened" reply (kept by the front for later re-use)
        {
            let signer: Signer = fixtures[0].signer_with_stake.clone().into();
            if let Ok(msg) = ToRegisterSignerMessageAdapter::try_adapt((Epoch(start_epoch + 1), signer)) {
                if let Ok(b) = serde_json::to_vec(&msg) {
                    let mut h = HeaderMap::new();
                    h.insert("content-type", "application/json".parse().unwrap());
                    let _ = front.state.forward(&Method::POST, "/aggregator/register-signer", &h, &b).await;
                }
            }
        }
        let snap = sim::snapshot(&agg.sim.db_path())?;
        let mut seed = [0u8; 32];
        rng.fill_bytes(&mut seed);
        Ok(Run {
            agg,
            front,
            fixture,
            signers,
            scripted,
            model,
            start_epoch,
            chain_epoch: start_epoch,
            step: 0,
            log: vec![],
            schedule: vec![],
            snap,
            per,
            pending_buffered: vec![],
            agg_down: false,
            any_disturbance: false,
            types,
            hid: hid.to_string(),
            key_rng: ChaCha20Rng::from_seed(seed),
            base_stakes,
            parameter_changes: vec![],
            lag_windows: 0,
        })
    }

    pub fn n_real(&self) -> usize {
        self.signers.len()
    }

    fn replay(&self, detail: Value) -> Value {
        json!({
            "history": self.hid,
            "step": self.step,
            "start_epoch": self.start_epoch,
            "real_signers": self.signers.iter().map(|s| json!({"idx": s.idx, "party": s.party_id, "publish_attempts": s.settings.publish_attempts, "retention": s.settings.retention})).collect::<Vec<_>>(),
            "scripted_signers": self.scripted.iter().map(|s| s.party.clone()).collect::<Vec<_>>(),
            "protocol_parameters_at_start": format!("{:?}", self.model.pp0),
            "registration_parameters_announced_by_the_aggregator": self.model.announced.iter().map(|(e, p)| json!({"round_of_epoch": e, "k": p.k, "m": p.m, "phi_f": p.phi_f})).collect::<Vec<_>>(),
            "aggregator_restarts_with_changed_parameters": self.parameter_changes.iter().map(|(e, st, p)| json!({"chain_epoch": e, "step": st, "k": p.k, "m": p.m, "phi_f": p.phi_f})).collect::<Vec<_>>(),
            "signer_nodes": self.signers.iter().map(|s| json!({"idx": s.idx, "node_epoch": s.node_epoch, "lag_ticks_left": s.lag_ticks_left, "lagged_in_epoch": s.lagged_in_epoch})).collect::<Vec<_>>(),
            "schedule": self.schedule,
            "log_tail": self.log.iter().rev().take(40).rev().collect::<Vec<_>>(),
            "detail": detail,
        })
    }

    /// note what the REAL aggregator announced in a genuine /epoch-settings reply: the protocol
    /// parameters of the registration round of the epoch of the reply
    fn note_announcement(&mut self, round_epoch: u64, parameters: &Value, mon: &mut Monitor) -> Option<ProtocolParameters> {
        let pp: ProtocolParameters = match serde_json::from_value(parameters.clone()) {
            Ok(p) => p,
            Err(_) => {
                mon.count("diag:epoch_settings_reply_without_registration_parameters");
                return None;
            }
        };
        match self.model.announce(round_epoch, pp.clone()) {
            Announced::New => {
                mon.count("registration_rounds_whose_parameters_the_aggregator_announced");
                let prev = round_epoch.checked_sub(1).and_then(|e| self.model.announced.get(&e));
                if prev.is_some_and(|p| *p != pp) {
                    mon.count("registration_rounds_announced_with_parameters_other_than_the_previous_round");
                }
            }
            Announced::Same => {}
            Announced::Conflict(old) => {
                // not the signer's business, but the model cannot be trusted for this round any more
                mon.count("diag:aggregator_announced_two_parameter_sets_for_one_registration_round");
                if std::env::var("VERIF_DEBUG").is_ok() {
                    eprintln!("round of epoch {round_epoch}: announced {old:?} earlier, now {pp:?}");
                }
            }
        }
        Some(pp)
    }

    fn note_front_announcements(&mut self, mon: &mut Monitor) {
        for (e, v) in self.front.state.drain_announcements() {
            self.note_announcement(e, &v, mon);
        }
    }

    /// ask the REAL aggregator (through its router, not through a signer) for its epoch settings:
    /// (epoch it announces, registration parameters of that round)
    async fn probe_announcement(&mut self, mon: &mut Monitor) -> Option<(u64, ProtocolParameters)> {
        if self.agg_down {
            return None;
        }
        let (status, _, body) = self.front.state.forward(&Method::GET, "/aggregator/epoch-settings", &HeaderMap::new(), &[]).await?;
        if status != 200 {
            return None;
        }
        let (e, v) = announcement_of(&body)?;
        let pp = self.note_announcement(e, &v, mon)?;
        // the same parameters must be served as protocol configuration of the recording epoch of the round
        // (diagnostic only: the configuration route is what the real signers register with)
        if let Some((200, _, b)) = self.front.state.forward(&Method::GET, &format!("/aggregator/protocol-configuration/{}", e + 1), &HeaderMap::new(), &[]).await {
            if let Ok(v) = serde_json::from_slice::<Value>(&b) {
                if serde_json::from_value::<ProtocolParameters>(v["protocol_parameters"].clone()).ok().as_ref() != Some(&pp) {
                    mon.count("diag:epoch_settings_and_protocol_configuration_announce_different_registration_parameters");
                }
            }
        }
        Some((e, pp))
    }

    /// a signed entity type of the aggregator's database row
    fn open_message_row<'a>(snap: &'a Snapshot, set: &SignedEntityType) -> Option<&'a serde_json::Map<String, Value>> {
        let (tid, beacon) = set_key(set);
        snap.open_messages.iter().find(|o| {
            o["signed_entity_type_id"].as_i64() == Some(tid)
                && match &o["beacon"] {
                    Value::String(s) => serde_json::from_str::<Value>(s).unwrap_or(Value::Null) == beacon,
                    v => *v == beacon,
                }
        })
    }

    pub fn epoch_has_certificate(&self) -> bool {
        self.snap.certificates.iter().any(|c| c["epoch"].as_i64() == Some(self.chain_epoch as i64) && !c["parent_certificate_id"].is_null())
    }

    pub async fn apply(&mut self, ev: &Ev, mon: &mut Monitor) -> StdResult<()> {
        self.step += 1;
        mon.count(&format!("event:{}", ev.kind()));
        self.schedule.push(format!("{ev:?}"));
        let mut entry = json!({"step": self.step, "event": format!("{ev:?}"), "chain_epoch": self.chain_epoch});
        match ev {
            Ev::AggTick => {
                if self.agg_down {
                    entry["skipped"] = json!("aggregator is down");
                } else {
                    let before = self.agg.sim.state().to_string();
                    let r = self.agg.sim.cycle().await;
                    for _ in 0..50 {
                        tokio::task::yield_now().await;
                    }
                    let after = self.agg.sim.state().to_string();
                    entry["aggregator_state"] = json!(format!("{before}->{after}"));
                    mon.count(&format!("aggregator_transition:{before}->{after}"));
                    if let Err(e) = &r {
                        entry["aggregator_error"] = json!(short(e, 160));
                        mon.count("aggregator_tick_errors");
                    }
                    self.after_aggregator_step(mon).await?;
                    if let Some((e, pp)) = self.probe_announcement(mon).await {
                        entry["aggregator_announces"] = json!({"epoch": e, "registration_parameters": [pp.k, pp.m, pp.phi_f]});
                    }
                }
            }
            Ev::SignerTick { i, faults } => {
                self.signer_tick(*i, faults, &mut entry, mon).await?;
            }
            Ev::EpochUp { restake, lag } => {
                // every signer's node has seen the end of the old epoch (an earlier lag is over) ...
                for s in self.signers.iter_mut() {
                    s.lag_ticks_left = 0;
                    s.sync_node(&self.agg.sim.world).await?;
                }
                // ... and the nodes named in `lag` stay there for a while
                for (i, ticks) in lag {
                    if *ticks > 0 && *i < self.signers.len() {
                        self.signers[*i].lag_ticks_left = *ticks;
                        self.signers[*i].lagged_in_epoch = Some(self.chain_epoch + 1);
                        self.per[*i].disturbed = true;
                        self.per[*i].streak = 0;
                        self.any_disturbance = true;
                        self.lag_windows += 1;
                        mon.count("node_lag_windows");
                        mon.count(&format!("node_lag_windows:signer_was_{}", if self.signers[*i].is_up() { "up" } else { "down" }));
                    }
                }
                if *restake {
                    let mut new = vec![];
                    let mut map = BTreeMap::new();
                    for s in self.fixture.signers_with_stake() {
                        let stake = self.base_stakes[&s.party_id] + rnd::below(&mut self.key_rng, 400);
                        map.insert(s.party_id.clone(), stake);
                        let mut s2 = s.clone();
                        s2.stake = stake;
                        new.push(s2);
                    }
                    self.agg.sim.world.chain_observer.set_signers(new).await;
                    let e = self.agg.sim.increase_epoch().await?;
                    self.chain_epoch = *e;
                    self.model.stakes_at.insert(self.chain_epoch, map);
                } else {
                    let prev = self.model.stakes_at.get(&self.chain_epoch).cloned().unwrap_or_else(|| self.base_stakes.clone());
                    let e = self.agg.sim.increase_epoch().await?;
                    self.chain_epoch = *e;
                    self.model.stakes_at.insert(self.chain_epoch, prev);
                }
                entry["new_epoch"] = json!(self.chain_epoch);
            }
            Ev::NewImmutable => {
                let n = self.agg.sim.increase_immutable().await?;
                entry["immutable"] = json!(n);
            }
            Ev::Blocks(n) => {
                // the aggregator's node and every signer's node see the same new blocks
                let (block, slot) = self.agg.sim.increase_blocks(*n).await?;
                let blocks: Vec<mithril_cardano_node_chain::entities::ScannedBlock> = (1..=*n)
                    .map(|k| {
                        let bn = block - n + k;
                        let sn = slot - n + k;
                        mithril_cardano_node_chain::entities::ScannedBlock::new(format!("block_hash-{bn}"), BlockNumber(bn), SlotNumber(sn), vec![format!("tx_hash-{bn}-1")])
                    })
                    .collect();
                for s in &self.signers {
                    s.block_scanner.add_forwards(vec![blocks.clone()]);
                }
                entry["block"] = json!(block);
            }
            Ev::SignerStop(i) => {
                self.signers[*i].stop();
                self.per[*i].disturbed = true;
                self.per[*i].streak = 0;
                self.any_disturbance = true;
            }
            Ev::SignerStart(i) | Ev::SignerRestart(i) => {
                let world = &self.agg.sim.world;
                if self.signers[*i].lag_ticks_left == 0 {
                    self.signers[*i].sync_node(world).await?;
                } else {
                    mon.count("signer_started_while_its_node_lags");
                    entry["node_epoch"] = json!(self.signers[*i].node_epoch);
                }
                self.signers[*i].start(world).await?;
                self.per[*i].disturbed = true;
                self.per[*i].streak = 0;
                self.per[*i].restarted_in_epoch = Some(self.chain_epoch);
                self.any_disturbance = true;
            }
            Ev::AggRestart { parameters } => {
                tokio::time::sleep(std::time::Duration::from_millis(20)).await;
                if let Some((k, m, phi_f)) = parameters {
                    // the operator edits the configuration; the restarted aggregator announces the new
                    // parameters for a later registration round, under its own epoch offsets
                    let pp = ProtocolParameters { k: *k, m: *m, phi_f: *phi_f };
                    entry["parameters"] = json!(format!("{:?} -> {:?}", self.agg.sim.cfg.protocol_parameters, pp));
                    self.agg.sim.cfg.protocol_parameters = pp.clone();
                    self.parameter_changes.push((self.chain_epoch, self.step, pp));
                }
                self.agg.restart().await?;
                self.any_disturbance = true;
                for p in self.per.iter_mut() {
                    p.streak = 0;
                }
            }
            Ev::AggDown(d) => {
                self.agg_down = *d;
                self.front.state.agg_down.store(*d, Ordering::SeqCst);
                self.any_disturbance = true;
                for p in self.per.iter_mut() {
                    p.streak = 0;
                }
            }
            Ev::ScriptedRegister(j) => {
                let r = self.scripted_register(*j, mon).await?;
                entry["reply"] = json!(r);
            }
            Ev::ScriptedSign(j) => {
                let r = self.scripted_sign(*j, mon).await?;
                entry["replies"] = json!(r);
                self.after_aggregator_step(mon).await?;
            }
        }
        self.log.push(entry);
        Ok(())
    }

    /// refresh the table snapshot; settle the buffered signatures whose open message now exists
    async fn after_aggregator_step(&mut self, mon: &mut Monitor) -> StdResult<()> {
        let snap = sim::snapshot(&self.agg.sim.db_path())?;
        let new_certs = snap.certificates.len().saturating_sub(self.snap.certificates.len());
        if new_certs > 0 {
            mon.count_n("aggregator_certificates_sealed", new_certs as u64);
        }
        let mut still = vec![];
        let pending = std::mem::take(&mut self.pending_buffered);
        for p in pending {
            match Self::open_message_row(&snap, &p.set) {
                None => still.push(p),
                Some(om) => {
                    let omid = om["open_message_id"].as_str().unwrap_or("");
                    let row = snap.single_signatures.iter().any(|r| r["open_message_id"].as_str() == Some(omid) && r["signer_id"].as_str() == Some(&p.party));
                    mon.eval();
                    if row {
                        mon.count("buffered_signature:taken_over_by_the_open_message");
                    } else {
                        let om_msg = om.get("protocol_message").cloned().unwrap_or(Value::Null);
                        mon.violation(
                            "C20 buffered signature discarded when the aggregator opened the message",
                            &format!(
                                "signer {} ({}) got 202 for {:?} at step {}, signed message {}; the aggregator then created the open message for this beacon but recorded no signature of this party (open message protocol message: {})",
                                p.signer, short(&p.party, 16), p.set, p.step, p.signed_message, short(&om_msg.to_string(), 300)
                            ),
                            self.replay(json!({"signer": p.signer, "signed_entity_type": format!("{:?}", p.set), "sigma": p.sigma})),
                        );
                    }
                }
            }
        }
        self.pending_buffered = still;
        self.snap = snap;
        Ok(())
    }

    fn plan_faults(&self, i: usize, faults: &[FaultSpec]) -> Vec<PlannedFault> {
        let mut out = vec![];
        for f in faults {
            let kind = match f.kind {
                "drop" => FaultKind::Drop,
                "lose-reply" => FaultKind::LoseReply,
                "stale-settings" => {
                    // a genuine reply of an earlier epoch
                    let cache = self.front.state.settings_cache.lock().unwrap();
                    match cache.range(..self.signers[i].node_epoch).next_back() {
                        Some((_, b)) => FaultKind::Stale(b.clone()),
                        None => continue,
                    }
                }
                "round-not-open" => match self.front.state.round_not_open_reply.lock().unwrap().clone() {
                    Some(b) => FaultKind::RoundNotOpen(b),
                    None => continue,
                },
                _ => continue,
            };
            out.push(PlannedFault { on: f.on, kind, remaining: f.n });
        }
        out
    }

    async fn signer_tick(&mut self, i: usize, faults: &[FaultSpec], entry: &mut Value, mon: &mut Monitor) -> StdResult<()> {
        if !self.signers[i].is_up() {
            entry["skipped"] = json!("signer is down");
            return Ok(());
        }
        // the signer's node follows the world, unless it is inside a lag window
        let lag_tick = self.signers[i].lag_ticks_left > 0;
        if !lag_tick {
            let was_behind = self.signers[i].node_epoch != self.chain_epoch;
            self.signers[i].sync_node(&self.agg.sim.world).await?;
            if was_behind && self.signers[i].lagged_in_epoch == Some(self.chain_epoch) {
                mon.count("node_lag_windows_ended_by_catching_up");
            }
        }
        let node_epoch = self.signers[i].node_epoch;
        let tp = self.signers[i].time_point(&self.agg.sim.world).await?;
        let agg_epoch = self.agg.epoch_of_current_data().await;
        let state_before = self.signers[i].state().await;
        let planned = self.plan_faults(i, faults);
        let had_plan = !planned.is_empty();
        self.front.state.plan(i, planned);
        let _ = self.front.state.drain();
        let res = self.signers[i].machine.as_ref().unwrap().cycle().await;
        self.front.state.clear_plan(i);
        // let the front finish logging (the reply reaches the client before the handler returns)
        tokio::task::yield_now().await;
        let events = self.front.state.drain();
        let state_after = self.signers[i].state().await;
        self.note_front_announcements(mon);
        if lag_tick {
            self.signers[i].lag_ticks_left -= 1;
            self.per[i].disturbed = true;
            entry["node_lags"] = json!({"node_epoch": node_epoch, "world_epoch": self.chain_epoch});
            mon.count("signer_ticks_while_its_node_lags");
            mon.count(&format!("signer_ticks_while_its_node_lags:state_before:{}", state_kind(&state_before)));
            mon.count(&format!(
                "signer_ticks_while_its_node_lags:aggregator_{}",
                match agg_epoch {
                    _ if self.agg_down => "down",
                    None => "not_initialised",
                    Some(a) if a > node_epoch => "ahead_of_the_node",
                    Some(a) if a == node_epoch => "at_the_epoch_of_the_node",
                    Some(_) => "behind_the_node",
                }
            ));
        }
        let mut critical = false;
        let err = match &res {
            Ok(()) => None,
            Err(e) => {
                critical = e.is_critical();
                // message + root cause of the error chain
                let mut root: Option<String> = None;
                let mut cur: Option<&(dyn std::error::Error + 'static)> = std::error::Error::source(e);
                while let Some(c) = cur {
                    root = Some(format!("{c}"));
                    cur = c.source();
                }
                Some(short(&format!("{e}{}", root.map(|r| format!(" <- {r}")).unwrap_or_default()), 420))
            }
        };
        self.per[i].last_error = err.clone();
        entry["signer"] = json!(i);
        entry["time_point"] = json!(format!("{tp}"));
        entry["aggregator_epoch"] = json!(agg_epoch);
        entry["state"] = json!(format!("{}->{}", state_label(&state_before), state_label(&state_after)));
        entry["error"] = json!(err);
        entry["http"] = json!(events.iter().map(compact).collect::<Vec<_>>());
        mon.count(&format!("signer_state_after_tick:{}", state_kind(&state_after)));
        mon.count(&format!("signer_transition:{}->{}", state_kind(&state_before), state_kind(&state_after)));
        if let Some(e) = &err {
            let class: String = e.split("message = '").nth(1).unwrap_or(e).split(|c| c == '(' || c == '\'' ).next().unwrap_or("").trim().chars().take(70).collect();
            mon.count(&format!("signer_tick_error:{class}"));
        }
        let injected = events.iter().any(|e| e.fault.is_some());
        if injected || had_plan {
            self.per[i].disturbed = true;
            self.any_disturbance = true;
        }
        // ---------------- boundary events of this tick
        let mut sent_beacons: Vec<String> = vec![];
        for ev in &events {
            if ev.signer != Some(i) {
                continue;
            }
            let outcome = match (ev.fault, ev.returned_status) {
                (Some(f), _) => f.to_string(),
                (None, s) => format!("status-{s}"),
            };
            mon.count(&format!("request:{}:{}", ev.kind.name(), outcome));
            match ev.kind {
                ReqKind::RegisterSigner => self.on_registration(i, ev, node_epoch, mon),
                ReqKind::RegisterSignature => {
                    let key = self.on_signature(i, ev, &state_before, agg_epoch, &tp, node_epoch, lag_tick, mon);
                    sent_beacons.push(key);
                }
                _ => {}
            }
        }
        // ---------------- a publication that failed must be attempted again (same beacon) while it is current
        if let Some(u) = self.per[i].unacked.take() {
            let same_world = u.time_point == tp;
            let ready = matches!(&state_before, Some(SignerState::ReadyToSign { epoch }) if **epoch == node_epoch);
            if !same_world {
                mon.count("unacked_publication:world_moved_on");
            } else if !ready {
                // not yet back in ReadyToSign (restart): keep waiting
                self.per[i].unacked = Some(u);
            } else {
                mon.eval();
                if sent_beacons.iter().any(|b| *b == u.beacon) {
                    mon.count("unacked_publication:sent_again");
                } else {
                    mon.violation(
                        "C20 signature whose publication failed is never sent again",
                        &format!(
                            "signer {i}: the publication of {} failed at step {} (no positive reply reached the signer); at step {} the signer is in {} with the same time point and {} instead of sending it again",
                            u.beacon,
                            u.step,
                            self.step,
                            state_label(&state_before),
                            if sent_beacons.is_empty() { "sends no signature at all".to_string() } else { format!("sends {:?}", sent_beacons) }
                        ),
                        self.replay(json!({"signer": i, "beacon": u.beacon, "failed_at_step": u.step})),
                    );
                }
            }
        }
        // remember a failed publication of this tick (the last signature request of the tick decides)
        if let Some(last) = events.iter().rev().find(|e| e.signer == Some(i) && e.kind == ReqKind::RegisterSignature) {
            if !matches!(last.returned_status, 201 | 202 | 410) {
                self.per[i].unacked = Some(Unacked { beacon: beacon_key(&last.body), time_point: tp.clone(), step: self.step });
            }
        }
        // ---------------- bounded progress (E4)
        self.progress(i, &state_after, agg_epoch, injected || had_plan || lag_tick, mon);
        if critical {
            // the real signer process exits on a critical error
            mon.count("signer_critical_error_process_exit");
            entry["critical"] = json!(true);
            self.signers[i].stop();
        }
        Ok(())
    }

    /// `node_epoch`: the chain epoch the sender's own node reports ("sent during chain epoch c")
    fn on_registration(&mut self, i: usize, ev: &HttpEvent, node_epoch: u64, mon: &mut Monitor) {
        let Some((msg, signer)) = Model::signer_from_message(&ev.body) else {
            mon.count("registration:undecodable_by_the_harness");
            return;
        };
        mon.eval();
        *self.per[i].registration_attempts.entry(node_epoch).or_insert(0) += 1;
        if node_epoch != self.chain_epoch {
            mon.count("registration:sent_while_the_signers_node_lags");
        }
        if msg.party_id != self.signers[i].party_id {
            mon.violation("C20 registration sent under another party id", &format!("signer {i} registered as {}", msg.party_id), self.replay(json!({"signer": i})));
        }
        if ev.delivered && ev.real_status == Some(201) {
            let vk_hex = signer.verification_key_for_concatenation.to_json_hex().unwrap_or_default();
            if let Some(prev) = self.model.regs.iter().rev().find(|r| r.party == msg.party_id && r.sent_in_epoch == node_epoch) {
                mon.count(if prev.vk_hex == vk_hex { "registration:same_key_registered_again_in_the_epoch" } else { "registration:new_key_replaces_the_one_registered_earlier_in_the_epoch" });
            }
            self.model.add(Registration {
                party: msg.party_id.clone(),
                sent_in_epoch: node_epoch,
                message_epoch: *msg.epoch,
                signer,
                vk_hex,
                acked_to_sender: ev.returned_status == 201,
                step: self.step,
                origin: "real-signer",
            });
            if *msg.epoch != node_epoch + 1 {
                // never on the pinned tree: a signer whose node shows epoch c registers for the round of c only
                mon.count("diag:registration_acknowledged_for_a_round_other_than_the_one_of_the_senders_node_epoch");
            }
            if self.model.announced.get(&node_epoch).is_some_and(|p| *p != self.model.pp0) {
                mon.count("registration:acknowledged_in_a_round_with_changed_protocol_parameters");
            }
            mon.count(if ev.returned_status == 201 { "registration:acknowledged" } else { "registration:delivered_reply_lost" });
        } else if ev.delivered {
            mon.count(&format!("registration:refused_by_aggregator:{}", ev.real_status.unwrap_or(0)));
        }
    }

    /// E1, E2, E3 on one signature publication; returns the beacon key.
    /// `node_epoch`: the chain epoch the signer's own node reports -- the epoch the signer signs for;
    /// it is the world's epoch unless the node lags (`lag_tick`)
    #[allow(clippy::too_many_arguments)]
    fn on_signature(&mut self, i: usize, ev: &HttpEvent, state_before: &Option<SignerState>, agg_epoch: Option<u64>, tp: &TimePoint, node_epoch: u64, lag_tick: bool, mon: &mut Monitor) -> String {
        mon.eval();
        let key = beacon_key(&ev.body);
        let party = ev.body["party_id"].as_str().unwrap_or("").to_string();
        let sig_hex = ev.body["signature"].as_str().unwrap_or("").to_string();
        let indexes: Vec<u64> = ev.body["indexes"].as_array().map(|a| a.iter().filter_map(|x| x.as_u64()).collect()).unwrap_or_default();
        let signed_message = ev.body["signed_message"].as_str().unwrap_or("").to_string();
        let sigma = sigma_hex(&sig_hex);
        let set: Option<SignedEntityType> = serde_json::from_value(ev.body["entity_type"].clone()).ok();
        let epoch = node_epoch;
        let disturbed = self.per[i].disturbed;
        *self.per[i].sent_in_epoch.entry(epoch).or_insert(0) += 1;
        // ---- which of the new fault classes does this judgement fall under
        if lag_tick {
            mon.count("signatures_judged:while_the_signers_node_lagged");
        } else if let Some(l) = self.signers[i].lagged_in_epoch {
            if l == self.chain_epoch {
                mon.count("signatures_judged:after_a_node_lag_in_the_same_epoch");
            } else if self.chain_epoch <= l + 3 {
                mon.count("signatures_judged:within_3_epochs_after_a_node_lag");
            }
        }
        {
            let cur = self.model.parameters_in_force(epoch);
            let next = self.model.parameters_in_force(epoch + 1);
            if cur.is_some_and(|p| *p != self.model.pp0) {
                mon.count("signatures_judged:under_changed_protocol_parameters");
            }
            if let (Some(c), Some(n)) = (cur, next) {
                if c != n {
                    mon.count("signatures_judged:in_an_epoch_whose_next_protocol_parameters_differ");
                }
            }
        }
        if party != self.signers[i].party_id {
            mon.violation("C20 signature sent under another party id", &format!("signer {i} signed as {party}"), self.replay(json!({"signer": i})));
        }
        // ---- E3: state and eligibility
        let ready = matches!(state_before, Some(SignerState::ReadyToSign { epoch: e }) if **e == epoch);
        if !ready {
            mon.violation(
                "C20 signature sent in a state other than ReadyToSign of the current epoch",
                &format!("signer {i} was in {} (epoch of its node {epoch}, of the world {}) when it sent a signature for {key}", state_label(state_before), self.chain_epoch),
                self.replay(json!({"signer": i, "beacon": key})),
            );
        }
        let reg = self.model.in_force(epoch).get(&party).map(|r| (r.acked_to_sender, r.vk_hex.clone(), r.sent_in_epoch, r.step));
        match &reg {
            None => mon.violation(
                "C20 signature sent without a registration eligible for the current epoch",
                &format!("signer {i} sent a signature for {key} at epoch {epoch}, but the log holds no acknowledged registration of it sent during epoch {}", epoch.saturating_sub(SIGNING_OFFSET)),
                self.replay(json!({"signer": i, "beacon": key})),
            ),
            Some((false, ..)) => mon.count("diag:signature_with_a_registration_whose_reply_was_lost"),
            Some((true, ..)) => {}
        }
        // ---- E2: verifies under the registered key, in the signer set of the epoch
        let verdict = self.model.verify(epoch, &party, &sig_hex, &indexes, &signed_message);
        mon.count(&format!("signature_check:{}", match &verdict { SigVerdict::Valid => "valid_under_the_logged_registration".to_string(), v => format!("{v:?}").chars().take(30).collect() }));
        if verdict == SigVerdict::NoParameters {
            // cannot happen as long as every acknowledged registration was preceded by an announcement
            mon.count("diag:signature_not_judged:parameters_of_its_registration_round_never_announced");
        } else if verdict != SigVerdict::Valid && reg.is_some() {
            mon.violation(
                "C20 signature does not verify under the key registered for the epoch in force",
                &format!(
                    "signer {i} epoch {epoch} beacon {key}: mithril-stm verification under the key registered at step {} (sent during epoch {}) in the signer set computed from the logged registrations, with the parameters the aggregator announced for that round ({:?}): {verdict:?}{}",
                    reg.as_ref().map(|r| r.3).unwrap_or(0),
                    reg.as_ref().map(|r| r.2).unwrap_or(0),
                    self.model.parameters_in_force(epoch),
                    if lag_tick { format!("; the signer's node lags (world epoch {})", self.chain_epoch) } else { String::new() }
                ),
                self.replay(json!({"signer": i, "beacon": key, "signed_message": signed_message})),
            );
        }
        // ---- E1: once per beacon
        let acked = matches!(ev.returned_status, 201 | 202 | 410);
        let (already_acked, other_sigma) = {
            let rec = self.per[i].beacons.entry(key.clone()).or_default();
            let already_acked = rec.acked > 0;
            let other_sigma = !rec.sigmas.is_empty() && !rec.sigmas.contains(&sigma);
            if !rec.sigmas.is_empty() && rec.sigmas.contains(&sigma) {
                mon.count("signature:byte_identical_resend");
            }
            rec.sigmas.insert(sigma.clone());
            rec.sends += 1;
            if acked {
                rec.acked += 1;
            }
            if disturbed {
                rec.under_fault = true;
            }
            (already_acked, other_sigma)
        };
        if already_acked {
            mon.violation(
                "C20 beacon signed again after an acknowledged publication",
                &format!("signer {i} sent a signature for {key} again at step {} although an earlier publication had been acknowledged", self.step),
                self.replay(json!({"signer": i, "beacon": key})),
            );
        }
        if other_sigma {
            mon.violation(
                "C20 two different signatures sent for one beacon",
                &format!("signer {i} sent a second, different sigma for {key}"),
                self.replay(json!({"signer": i, "beacon": key})),
            );
        }
        // ---- E2 (second half): the real aggregator accepts it
        if ev.delivered {
            let status = ev.real_status.unwrap_or(0);
            let class = match status {
                201 => "registered",
                202 => "buffered",
                410 => "gone(certified-or-expired)",
                400 => "bad-request",
                404 => "not-found",
                _ => "server-error",
            };
            mon.count(&format!("signature_reply:{class}"));
            let tname = ev.body["entity_type"].as_object().and_then(|o| o.keys().next().cloned()).unwrap_or_else(|| "?".into());
            mon.count(&format!("signature_reply_by_type:{tname}:{class}"));
            if disturbed && (status == 201 || status == 202) {
                mon.nontrivial_str(&format!("{}|{i}|{key}", self.hid));
                mon.count("signature_accepted_in_a_disturbed_signer_history");
            }
            if status == 202 {
                if let Some(set) = set.clone() {
                    self.pending_buffered.push(PendingBuffered { signer: i, party: party.clone(), set, sigma: sigma.clone(), signed_message: signed_message.clone(), step: self.step });
                }
            }
            if !matches!(status, 201 | 202 | 410) {
                let in_sync = matches!(agg_epoch, Some(a) if a == epoch || a + 1 == epoch);
                if verdict == SigVerdict::Valid && in_sync {
                    let om = set.as_ref().and_then(|s| Self::open_message_row(&self.snap, s)).map(|o| json!({"is_certified": o["is_certified"], "is_expired": o["is_expired"], "protocol_message": o["protocol_message"]}));
                    mon.violation(
                        "C20 well-formed timely signature rejected by the aggregator",
                        &format!(
                            "signer {i} epoch {epoch} (aggregator epoch {agg_epoch:?}) beacon {key}: sigma verifies under the logged registration, yet the aggregator answered {status} {}; open message: {}",
                            short(&ev.real_body, 200),
                            om.map(|o| short(&o.to_string(), 400)).unwrap_or_else(|| "none".into())
                        ),
                        self.replay(json!({"signer": i, "beacon": key, "signed_message": signed_message, "time_point": format!("{tp}")})),
                    );
                } else {
                    mon.count(&format!("signature_rejected:{}", if in_sync { "not_well_formed" } else { "aggregator_out_of_sync" }));
                }
            }
        }
        key
    }

    /// E4: an eligible signer signs within PROGRESS_BOUND undisturbed ticks of an epoch
    fn progress(&mut self, i: usize, state_after: &Option<SignerState>, agg_epoch: Option<u64>, disturbed_tick: bool, mon: &mut Monitor) {
        let epoch = self.chain_epoch;
        let p = &mut self.per[i];
        if p.streak_epoch != epoch {
            p.streak_epoch = epoch;
            p.streak = 0;
        }
        // undisturbed = no fault on this tick, the aggregator reachable, working (its state machine is in
        // ready / signing: it has entered the epoch and opened the registration round) and at the same epoch
        let agg_state = self.agg.sim.state();
        let clean = !disturbed_tick && !self.agg_down && agg_epoch == Some(epoch) && (agg_state == "ready" || agg_state == "signing");
        if clean {
            p.streak += 1;
        } else {
            p.streak = 0;
        }
        if p.streak < PROGRESS_BOUND || p.progress_reported.contains(&epoch) {
            return;
        }
        self.per[i].progress_reported.insert(epoch);
        let party = self.signers[i].party_id.clone();
        // ---- it has registered for the round of this epoch
        mon.eval();
        if self.model.regs.iter().any(|r| r.party == party && r.sent_in_epoch == epoch) {
            mon.count("progress:signer_registered_within_the_bound");
        } else {
            mon.violation(
                "C20 signer does not register within the bound",
                &format!(
                    "signer {i}: {} undisturbed ticks in epoch {epoch} with the aggregator reachable, at the same epoch and its registration round open, state {}, yet the aggregator acknowledged no registration of it sent during this epoch; error of its last tick: {}",
                    self.per[i].streak,
                    state_label(state_after),
                    self.per[i].last_error.clone().unwrap_or_else(|| "none".into())
                ),
                self.replay(json!({"signer": i, "epoch": epoch})),
            );
        }
        // ---- it signs if it is eligible
        let in_force = self.model.in_force(epoch);
        let Some(reg) = in_force.get(&party) else { return };
        if !reg.acked_to_sender {
            return;
        }
        // the signer holds the key the aggregator uses for it in this epoch: it must be signing
        let sent = self.per[i].sent_in_epoch.get(&epoch).copied().unwrap_or(0);
        mon.eval();
        if sent > 0 {
            mon.count("progress:eligible_signer_signed_within_the_bound");
            return;
        }
        // does it hold keys for the next epoch (registration sent during epoch - 1)?
        let next = self.model.in_force(epoch + 1).get(&party).map(|r| r.acked_to_sender);
        let after_restart = self.per[i].restarted_in_epoch == Some(epoch);
        let attempts = self.per[i].registration_attempts.get(&(epoch - 1)).copied().unwrap_or(0);
        let (signature, why) = if next != Some(true) && attempts == 0 {
            (
                "C20 eligible signer cannot sign in an epoch whose preceding registration round it missed",
                format!("it holds the key registered for epoch {epoch} (the aggregator counts it in the signer set), but it sent no registration during epoch {} (it was down, or never got as far as registering)", epoch - 1),
            )
        } else if next != Some(true) {
            (
                "C20 eligible signer cannot sign in an epoch after its registration attempts of the preceding round failed",
                format!("it holds the key registered for epoch {epoch} (the aggregator counts it in the signer set); its {attempts} registration attempt(s) sent during epoch {} were dropped or their replies lost, so it stored no keys for epoch {}", epoch - 1, epoch + 1),
            )
        } else if after_restart {
            ("C20 signer does not resume signing after restart", "restarted during this epoch".to_string())
        } else {
            ("C20 eligible signer does not sign within the bound", String::new())
        };
        mon.violation(
            signature,
            &format!(
                "signer {i}: {} undisturbed ticks in epoch {epoch} with the aggregator reachable and at the same epoch, state {}, no signature sent in this epoch; {why}; error of its last tick: {}",
                self.per[i].streak,
                state_label(state_after),
                self.per[i].last_error.clone().unwrap_or_else(|| "none".into())
            ),
            self.replay(json!({"signer": i, "epoch": epoch})),
        );
    }

    async fn post(&self, path: &str, body: &impl serde::Serialize) -> Option<(u16, String)> {
        let b = serde_json::to_vec(body).ok()?;
        let mut h = HeaderMap::new();
        h.insert("content-type", "application/json".parse().unwrap());
        let (s, _, rb) = self.front.state.forward(&Method::POST, path, &h, &b).await?;
        Some((s, String::from_utf8_lossy(&rb).chars().take(200).collect()))
    }

    /// an honest co-signer driven by the harness registers for the open round (fresh keys every epoch)
    async fn scripted_register(&mut self, j: usize, mon: &mut Monitor) -> StdResult<String> {
        if self.agg_down {
            return Ok("aggregator down".into());
        }
        let epoch = self.chain_epoch;
        let party = self.scripted[j].party.clone();
        if self.model.regs.iter().any(|r| r.party == party && r.sent_in_epoch == epoch) {
            return Ok("already registered in this epoch".into());
        }
        let stake = self.model.stakes_at.get(&epoch).and_then(|m| m.get(&party)).copied().ok_or_else(|| anyhow!("no stake for scripted signer"))?;
        // like a real signer: ask the aggregator for its epoch settings first; wait while it announces an
        // earlier epoch; make the keys with the parameters it announces for the round
        let Some((announced_epoch, pp)) = self.probe_announcement(mon).await else {
            mon.count("scripted_registration:no_epoch_settings");
            return Ok("the aggregator serves no epoch settings".into());
        };
        if announced_epoch != epoch {
            mon.count("scripted_registration:aggregator_announces_another_epoch");
            return Ok(format!("the aggregator announces epoch {announced_epoch}"));
        }
        let mut seed = [0u8; 32];
        self.key_rng.fill_bytes(&mut seed);
        let mut rng = ChaCha20Rng::from_seed(seed);
        let pi = ProtocolInitializer::setup(pp.clone().into(), Some(self.scripted[j].kes.clone()), Some(KesPeriod(0)), stake, &mut rng)?;
        let f = &self.fixture.signers_fixture()[self.scripted[j].fixture_idx];
        let signer = Signer {
            party_id: party.clone(),
            verification_key_for_concatenation: pi.verification_key_for_concatenation().into(),
            verification_key_signature_for_concatenation: pi.verification_key_signature_for_concatenation(),
            operational_certificate: f.signer_with_stake.operational_certificate.clone(),
            kes_evolutions: Some(mithril_common::crypto_helper::KesEvolutions(0)),
        };
        let msg = ToRegisterSignerMessageAdapter::try_adapt((Epoch(epoch + 1), signer.clone()))?;
        let Some((status, body)) = self.post("/aggregator/register-signer", &msg).await else { return Ok("aggregator restarting".into()) };
        mon.count(&format!("scripted_registration:status-{status}"));
        if status == 201 {
            self.scripted[j].initializers.insert(epoch, pi);
            self.model.add(Registration {
                party,
                sent_in_epoch: epoch,
                message_epoch: epoch + 1,
                vk_hex: signer.verification_key_for_concatenation.to_json_hex().unwrap_or_default(),
                signer,
                acked_to_sender: true,
                step: self.step,
                origin: "scripted",
            });
        }
        Ok(format!("{status} {body}"))
    }

    /// the co-signer signs every open message of the aggregator it has not signed yet
    async fn scripted_sign(&mut self, j: usize, mon: &mut Monitor) -> StdResult<Vec<String>> {
        let mut out = vec![];
        if self.agg_down {
            return Ok(out);
        }
        let epoch = self.chain_epoch;
        if self.agg.epoch_of_current_data().await != Some(epoch) || epoch < SIGNING_OFFSET {
            return Ok(out);
        }
        let party = self.scripted[j].party.clone();
        let Some(pi) = self.scripted[j].initializers.get(&(epoch - SIGNING_OFFSET)).cloned() else { return Ok(out) };
        if !self.model.in_force(epoch).contains_key(&party) {
            return Ok(out);
        }
        let Some(pp) = self.model.parameters_in_force(epoch).cloned() else { return Ok(out) };
        let Some(keys) = self.model.keys(epoch) else { return Ok(out) };
        let builder = SignerBuilder::new(&keys.signers, &pp)?;
        let single = builder.restore_signer_from_initializer(party.clone(), pi)?;
        let mut discs = vec![SignedEntityTypeDiscriminants::MithrilStakeDistribution];
        discs.extend(self.types.iter().copied());
        for d in discs {
            let Ok(set) = self.agg.sim.current_signed_entity_type(d).await else { continue };
            let Some(om) = self.agg.sim.deps.certifier_service.get_open_message(&set).await.ok().flatten() else { continue };
            if om.is_certified || om.is_expired {
                continue;
            }
            let k = format!("{set:?}");
            if self.scripted[j].signed.contains(&k) {
                continue;
            }
            let Some(sig) = single.sign(&om.protocol_message)? else { continue };
            let msg = RegisterSignatureMessageHttp {
                signed_entity_type: SignedEntityTypeMessage::Known(set.clone()),
                party_id: party.clone(),
                signature: sig.signature.to_json_hex()?,
                won_indexes: sig.won_indexes.clone(),
                signed_message: om.protocol_message.to_message(),
            };
            let Some((status, body)) = self.post("/aggregator/register-signatures", &msg).await else { continue };
            mon.count(&format!("scripted_signature:status-{status}"));
            if status == 201 || status == 410 {
                self.scripted[j].signed.insert(k.clone());
            } else {
                // the harness's own co-signer is rejected: the harness model and the aggregator disagree
                mon.count("diag:scripted_signature_refused");
                if std::env::var("VERIF_DEBUG").is_ok() {
                    eprintln!("scripted signature refused: {status} {body} for {k}");
                }
            }
            out.push(format!("{k}: {status}"));
        }
        Ok(out)
    }

    /// end of history: what was observed per signer
    pub fn summarize(&mut self, mon: &mut Monitor) {
        for (i, p) in self.per.iter().enumerate() {
            for (b, r) in &p.beacons {
                mon.count("beacons_signed_by_real_signers");
                if r.sends > 1 {
                    mon.count("beacons_with_more_than_one_send");
                }
                if r.acked == 0 {
                    mon.count("beacons_never_acknowledged");
                }
                let _ = (i, b);
            }
        }
        if !self.parameter_changes.is_empty() {
            mon.count("histories_with_a_protocol_parameter_change");
            mon.count_n("aggregator_restarts_with_changed_protocol_parameters", self.parameter_changes.len() as u64);
        }
        let mut distinct: Vec<&ProtocolParameters> = vec![];
        for p in self.model.announced.values() {
            if !distinct.iter().any(|d| *d == p) {
                distinct.push(p);
            }
        }
        if distinct.len() > 1 {
            mon.count("histories_in_which_the_aggregator_announced_more_than_one_parameter_set");
        }
        if self.lag_windows > 0 {
            mon.count("histories_with_a_node_lag_window");
        }
        mon.count_n("steps", self.step as u64);
        mon.count_n("epochs_covered", self.chain_epoch - self.start_epoch + 1);
        mon.count_n("buffered_signatures_never_matched_by_an_open_message", self.pending_buffered.len() as u64);
        // certificates whose signer list names a real signer: the real signers' signatures end up certified
        for c in &self.snap.certificates {
            if c["parent_certificate_id"].is_null() {
                continue;
            }
            if let Some(list) = c["signers"].as_str().and_then(|s| serde_json::from_str::<Vec<Value>>(s).ok()) {
                for s in list {
                    let p = s["party_id"].as_str().unwrap_or("");
                    if self.signers.iter().any(|x| x.party_id == p) {
                        mon.count("certificate_signer_entries_of_real_signers");
                    }
                }
            }
        }
    }
}

pub fn beacon_key(body: &Value) -> String {
    body["entity_type"].to_string()
}
