//! mon-signer: C20 -- a signer signs each beacon once, with its epoch key, acceptably to aggregators.
//! REAL signer runtimes (state machine + runner over the container the signer's own
//! `DependenciesBuilder::build()` returns: certifier and signature-publisher stack, HTTP client,
//! stores over file-backed sqlite, KES signer ...; see signer.rs for what is a double) against the
//! REAL aggregator of mon-agg's `Sim` in the same process, through a loopback HTTP front (one
//! listener per real signer) that injects faults and logs the boundary.
//! Every real signer has its own chain observer double (its Cardano node, which may lag behind the
//! world's at an epoch change); the aggregator may be restarted with changed protocol parameters,
//! and the model takes the parameters of every registration round from the aggregator's own
//! announcements.
mod agg;
mod front;
mod hist;
mod model;
mod signer;
mod workload;

use serde_json::Value;
use std::path::PathBuf;
use std::process::Command;
use vcore::{Monitor, Tier};

fn scratch_root() -> PathBuf {
    std::env::temp_dir().join(format!("verif-signer-{}", std::process::id()))
}

fn arg_value(args: &vcore::Args, key: &str) -> Option<String> {
    args.extra.iter().find_map(|a| a.strip_prefix(&format!("--{key}=")).map(|s| s.to_string()))
}

fn main() {
    let args = vcore::parse_args();
    vcore::install_panic_hook();
    match args.prop.as_str() {
        "C20" => parent(&args),
        "C20-child" => {
            mon_agg::hist::install_panic_recorder();
            let rt = tokio::runtime::Builder::new_multi_thread().worker_threads(2).enable_all().build().unwrap();
            rt.block_on(child(&args));
            // background tasks of the aggregator / hyper may still hold the runtime
            std::process::exit(0);
        }
        other => {
            eprintln!("mon-signer: unknown property {other}");
            std::process::exit(2);
        }
    }
}

fn run_children(mon: &mut Monitor, child_prop: &str, shards: u64, parallel: usize, timeout_s: u64) {
    let exe = std::env::current_exe().unwrap();
    let root = scratch_root();
    let _ = std::fs::create_dir_all(&root);
    let mut pending: Vec<u64> = (0..shards).rev().collect();
    let mut running: Vec<(u64, std::process::Child, std::time::Instant, PathBuf)> = vec![];
    while !pending.is_empty() || !running.is_empty() {
        while running.len() < parallel && !pending.is_empty() {
            let shard = pending.pop().unwrap();
            let out = root.join(format!("shard-{shard}.json"));
            let child = Command::new(&exe)
                .arg(child_prop)
                .arg("--tier")
                .arg(mon.tier.as_str())
                .arg(format!("--shard={shard}"))
                .arg(format!("--out={}", out.display()))
                .arg(format!("--dir={}", root.join(format!("data-{shard}")).display()))
                .env("VERIF_SEED", mon.seed.to_string())
                .stdout(std::process::Stdio::null())
                .stderr(if std::env::var("VERIF_DEBUG").is_ok() { std::process::Stdio::inherit() } else { std::process::Stdio::null() })
                .spawn()
                .expect("spawn child");
            running.push((shard, child, std::time::Instant::now(), out));
        }
        let mut i = 0;
        while i < running.len() {
            let done = match running[i].1.try_wait() {
                Ok(Some(st)) => Some(Ok(st)),
                Ok(None) => {
                    if running[i].2.elapsed().as_secs() > timeout_s {
                        let _ = running[i].1.kill();
                        let _ = running[i].1.wait();
                        Some(Err("watchdog"))
                    } else {
                        None
                    }
                }
                Err(_) => Some(Err("wait failed")),
            };
            if let Some(res) = done {
                let (shard, _, _, out) = running.remove(i);
                match res {
                    Ok(st) => match std::fs::read_to_string(&out).ok().and_then(|t| serde_json::from_str::<Value>(&t).ok()) {
                        Some(d) => mon.absorb(&d),
                        None => mon.inconclusive(&format!("shard {shard}: child ended with {st} without a report")),
                    },
                    Err(why) => mon.inconclusive(&format!("shard {shard}: {why} after {timeout_s}s")),
                }
            } else {
                i += 1;
            }
        }
        std::thread::sleep(std::time::Duration::from_millis(50));
    }
    let _ = std::fs::remove_dir_all(&root);
}

fn parent(args: &vcore::Args) {
    let mut mon = Monitor::new(args);
    let (shards, timeout) = match args.tier {
        Tier::Quick => (16, 900),
        Tier::Thorough => (100, 5400),
    };
    run_children(&mut mon, "C20-child", shards, vcore::default_threads().min(16), timeout);
    let states: Vec<String> = mon.counters.keys().filter_map(|k| k.strip_prefix("signer_state_after_tick:").map(|s| s.to_string())).collect();
    let transitions: Vec<String> = mon.counters.keys().filter_map(|k| k.strip_prefix("signer_transition:").map(|s| s.to_string())).collect();
    mon.extra.insert("signer_states_observed".into(), serde_json::json!(states));
    mon.extra.insert("signer_transitions_observed".into(), serde_json::json!(transitions));
    let min = match args.tier {
        Tier::Quick => 100,
        Tier::Thorough => 3000,
    };
    let done = mon.counter("histories_completed");
    let discarded = mon.counter("histories_discarded_harness_error");
    if discarded * 4 > done.max(1) {
        mon.inconclusive(&format!("{discarded} histories were discarded because the harness itself failed (e.g. loopback listener, sqlite), {done} completed"));
    }
    mon.finish(workload::RULE, workload::ASSUMPTIONS, min);
}

async fn child(args: &vcore::Args) {
    let shard: u64 = arg_value(args, "shard").and_then(|s| s.parse().ok()).unwrap_or(0);
    let out = PathBuf::from(arg_value(args, "out").unwrap_or_else(|| "/tmp/c20-child.json".into()));
    let dir = PathBuf::from(arg_value(args, "dir").unwrap_or_else(|| format!("/tmp/verif-signer-child-{}", std::process::id())));
    let only: Option<u64> = arg_value(args, "history").and_then(|s| s.parse().ok());
    let mut mon = Monitor::with("C20", args.tier, args.seed);
    let histories = match args.tier {
        Tier::Quick => 3,
        Tier::Thorough => 14,
    };
    for h in 0..histories {
        if only.is_some_and(|o| o != h) {
            continue;
        }
        let hid = format!("seed{}-shard{}-h{}", args.seed, shard, h);
        let hdir = dir.join(format!("h{h}"));
        let _ = std::fs::remove_dir_all(&hdir);
        let mut rng = mon.rng("c20", shard * 1000 + h);
        let scenario = match (shard, h) {
            (0, 0) => Some("honest"),
            (0, 1) => Some("missed-round"),
            (0, 2) => Some("lost-registration"),
            (1, 0) => Some("parameter-change"),
            (1, 1) => Some("node-lag"),
            _ => None,
        };
        match workload::one_history(&mut mon, &mut rng, hdir.clone(), &hid, scenario).await {
            Ok(()) => {
                mon.count("histories_completed");
                mon.eval();
            }
            Err(e) => {
                mon.count("histories_discarded_harness_error");
                if std::env::var("VERIF_DEBUG").is_ok() {
                    eprintln!("history {hid} discarded: {e:#}");
                }
            }
        }
        // panics anywhere in the process (signer / aggregator background tasks) are diagnostics
        let panics: Vec<String> = mon_agg::hist::PANICS.lock().map(|mut p| p.drain(..).collect()).unwrap_or_default();
        for p in panics {
            mon.count(&format!("diag:panic@{}", vcore::panic_location(&p)));
        }
        let _ = std::fs::remove_dir_all(&hdir);
    }
    let _ = std::fs::remove_dir_all(&dir);
    let _ = std::fs::write(&out, serde_json::to_string(&mon.dump()).unwrap());
}
