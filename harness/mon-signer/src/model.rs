//! The harness's own model of "which key of which party, with which stake, under which protocol
//! parameters, is in force for signing at epoch E", computed ONLY from the boundary log
//! (registrations the aggregator acknowledged, the registration parameters it announced) and the
//! statement's rule: a registration sent during chain epoch c -- made with the parameters the
//! aggregator announced for the registration round of epoch c -- is used for signing at c + 2.
//! (The epoch arithmetic is written out here on purpose: the `Epoch::offset_*` functions of
//! mithril-common are part of what is checked.)
use mithril_common::crypto_helper::{ProtocolAggregateVerificationKey, ProtocolSingleSignature};
use mithril_common::entities::{PartyId, ProtocolParameters, Signer, SignerWithStake, Stake};
use mithril_common::messages::{RegisterSignerMessage, TryFromMessageAdapter};
use mithril_common::protocol::SignerBuilder;
use std::collections::BTreeMap;

#[derive(Clone, Debug)]
pub struct Registration {
    pub party: PartyId,
    /// chain epoch during which the registration was sent
    pub sent_in_epoch: u64,
    /// `epoch` field of the registration message (the recording epoch)
    pub message_epoch: u64,
    pub signer: Signer,
    pub vk_hex: String,
    /// the sender got the positive reply (it knows that it is registered with this key)
    pub acked_to_sender: bool,
    pub step: usize,
    pub origin: &'static str,
}

pub struct EpochKeys {
    pub signers: Vec<SignerWithStake>,
    pub avk: ProtocolAggregateVerificationKey,
}

pub struct Model {
    /// parameters of the history's start (the genesis epochs)
    pub pp0: ProtocolParameters,
    /// protocol parameters of the registration round of chain epoch c, as the REAL aggregator
    /// announced them: `signer_registration_protocol` of its genuine /epoch-settings replies whose
    /// `epoch` is c (no parameter is ever computed by the harness; the rounds before the history
    /// starts are the fixture's)
    pub announced: BTreeMap<u64, ProtocolParameters>,
    /// registrations the aggregator acknowledged (201), in log order
    pub regs: Vec<Registration>,
    /// stake distribution observable on chain during chain epoch c
    pub stakes_at: BTreeMap<u64, BTreeMap<PartyId, Stake>>,
    cache: BTreeMap<u64, Option<EpochKeys>>,
}

#[derive(Debug, PartialEq)]
pub enum SigVerdict {
    Valid,
    NotRegistered,
    NoSignerSet,
    Undecodable(String),
    Invalid(String),
    /// the aggregator never announced parameters for the round the key was registered in
    NoParameters,
}

#[derive(Debug, PartialEq)]
pub enum Announced {
    New,
    Same,
    /// the aggregator had announced other parameters for the same round before
    Conflict(ProtocolParameters),
}

pub const SIGNING_OFFSET: u64 = 2;

impl Model {
    pub fn new(pp0: ProtocolParameters) -> Model {
        Model { pp0, announced: BTreeMap::new(), regs: vec![], stakes_at: BTreeMap::new(), cache: BTreeMap::new() }
    }

    /// the aggregator announced `pp` for the registration round of chain epoch `round_epoch`
    pub fn announce(&mut self, round_epoch: u64, pp: ProtocolParameters) -> Announced {
        match self.announced.get(&round_epoch) {
            Some(old) if *old == pp => Announced::Same,
            Some(old) => Announced::Conflict(old.clone()),
            None => {
                self.cache.remove(&(round_epoch + SIGNING_OFFSET));
                self.announced.insert(round_epoch, pp);
                Announced::New
            }
        }
    }

    /// parameters in force for signing at `signing_epoch`: those announced for the registration round
    /// in which the keys in force were registered (sent during `signing_epoch - 2`)
    pub fn parameters_in_force(&self, signing_epoch: u64) -> Option<&ProtocolParameters> {
        if signing_epoch < SIGNING_OFFSET {
            return None;
        }
        self.announced.get(&(signing_epoch - SIGNING_OFFSET))
    }

    pub fn add(&mut self, r: Registration) {
        self.cache.remove(&(r.sent_in_epoch + SIGNING_OFFSET));
        self.regs.push(r);
    }

    pub fn signer_from_message(v: &serde_json::Value) -> Option<(RegisterSignerMessage, Signer)> {
        let m: RegisterSignerMessage = serde_json::from_value(v.clone()).ok()?;
        let s = mithril_aggregator::FromRegisterSignerAdapter::try_adapt(m.clone()).ok()?;
        Some((m, s))
    }

    /// last acknowledged registration per party among those sent during `signing_epoch - 2`
    pub fn in_force(&self, signing_epoch: u64) -> BTreeMap<PartyId, &Registration> {
        let mut m = BTreeMap::new();
        if signing_epoch < SIGNING_OFFSET {
            return m;
        }
        for r in &self.regs {
            if r.sent_in_epoch + SIGNING_OFFSET == signing_epoch {
                m.insert(r.party.clone(), r);
            }
        }
        m
    }

    pub fn keys(&mut self, signing_epoch: u64) -> Option<&EpochKeys> {
        if !self.cache.contains_key(&signing_epoch) {
            let computed = self.compute_keys(signing_epoch);
            self.cache.insert(signing_epoch, computed);
        }
        self.cache.get(&signing_epoch).and_then(|k| k.as_ref())
    }

    fn compute_keys(&self, signing_epoch: u64) -> Option<EpochKeys> {
        let regs = self.in_force(signing_epoch);
        if regs.is_empty() {
            return None;
        }
        let stakes = self.stakes_at.get(&(signing_epoch - SIGNING_OFFSET))?;
        let mut signers = vec![];
        for (p, r) in regs {
            let stake = *stakes.get(&p)?;
            signers.push(SignerWithStake::from_signer(r.signer.clone(), stake));
        }
        let b = SignerBuilder::new(&signers, self.parameters_in_force(signing_epoch)?).ok()?;
        Some(EpochKeys { signers, avk: b.compute_aggregate_verification_key() })
    }

    /// does this single signature verify -- with mithril-stm directly -- for `signed_message` under
    /// the key `party` registered for `signing_epoch`, in the signer set of that epoch?
    pub fn verify(&mut self, signing_epoch: u64, party: &str, signature_json_hex: &str, won_indexes: &[u64], signed_message: &str) -> SigVerdict {
        let Some(pp) = self.parameters_in_force(signing_epoch).cloned() else { return SigVerdict::NoParameters };
        let Some(keys) = self.keys(signing_epoch) else { return SigVerdict::NoSignerSet };
        let Some(s) = keys.signers.iter().find(|s| s.party_id == party) else { return SigVerdict::NotRegistered };
        let sig = match ProtocolSingleSignature::from_json_hex(signature_json_hex) {
            Ok(k) => k,
            Err(e) => return SigVerdict::Undecodable(format!("{e:#}").chars().take(120).collect()),
        };
        let mut p: mithril_stm::SingleSignature = sig.into();
        p.set_concatenation_signature_indices(won_indexes);
        let params = mithril_stm::Parameters { m: pp.m, k: pp.k, phi_f: pp.phi_f };
        match p.verify(&params, &s.verification_key_for_concatenation.vk, &s.stake, &keys.avk, signed_message.as_bytes()) {
            Ok(()) => SigVerdict::Valid,
            Err(e) => SigVerdict::Invalid(format!("{e:#}").chars().take(160).collect()),
        }
    }
}

pub fn sigma_hex(signature_json_hex: &str) -> String {
    match ProtocolSingleSignature::from_json_hex(signature_json_hex) {
        Ok(k) => {
            let p: mithril_stm::SingleSignature = k.into();
            vcore::hex(&p.get_concatenation_signature_sigma().to_bytes())
        }
        Err(_) => format!("undecodable:{signature_json_hex}"),
    }
}
