//! A REAL signer: `StateMachine` + `SignerRunner` + the real services over FILE-BACKED sqlite
//! (so that a restart really restarts on the signer's own files), real `KesSignerStandard` over the
//! fixture's key files, real `AggregatorHttpClient` (-> front -> real aggregator router), the
//! production signature publisher stack (delayer / retrier). Doubles only for the Cardano node:
//! the signer's OWN chain observer (kept in step with the world's by the harness, except during a
//! node-lag window), immutable file observer and digester (both SHARED with the aggregator), block
//! scanner. The assembly follows mithril-signer/tests/test_extensions/state_machine_tester.rs and
//! dependency_injection/builder.rs.
use std::collections::HashMap;
use std::path::{Path, PathBuf};
use std::sync::Arc;
use std::time::Duration;
use tokio::sync::RwLock;

use mithril_aggregator_client::AggregatorHttpClient;
use mithril_cardano_node_chain::{
    chain_importer::CardanoChainDataImporter,
    test::double::{DumbBlockScanner, FakeChainObserver},
};
use mithril_cardano_node_internal_database::signable_builder::CardanoDatabaseSignableBuilder;
use mithril_common::{
    api_version::APIVersionProvider,
    crypto_helper::{KesSigner, KesSignerStandard, ProtocolInitializer},
    entities::{BlockNumber, Epoch, StakeDistribution, TimePoint},
    signable_builder::{
        CardanoBlocksTransactionsSignableBuilder, CardanoStakeDistributionSignableBuilder, CardanoTransactionsSignableBuilder,
        MithrilSignableBuilderService, MithrilStakeDistributionSignableBuilder, SignableBuilderServiceDependencies,
    },
    test::builder::SignerFixture,
    StdResult,
};
use mithril_era::{EraChecker, EraReader};
use mithril_persistence::store::StakeStorer;
use mithril_protocol_config::http::HttpMithrilNetworkConfigurationProvider;
use mithril_signed_entity_lock::SignedEntityTypeLock;
use mithril_signed_entity_preloader::{CardanoTransactionsPreloader, CardanoTransactionsPreloaderActivation};
use mithril_signer::{
    database::repository::{ProtocolInitializerRepository, SignedBeaconRepository, SignerCardanoChainDataRepository, StakePoolStore},
    dependency_injection::{DependenciesBuilder, SignerDependencyContainer},
    services::{
        MithrilEpochService, MithrilSingleSigner, SignaturePublishRetryPolicy, SignaturePublisher, SignaturePublisherDelayer,
        SignaturePublisherNoop, SignaturePublisherRetrier, SignerCertifierService, SignerChainDataImporter, SignerSignableSeedBuilder,
        SignerSignedEntityConfigProvider, SignerUpkeepService,
    },
    store::{MKTreeStoreSqlite, ProtocolInitializerStorer},
    Configuration, MetricsService, SignerRunner, SignerState, StateMachine,
};
use mithril_ticker::{MithrilTickerService, TickerService};
use mon_agg::sim::World;

use crate::front::SIGNER_HEADER;

pub fn signer_logger() -> slog::Logger {
    if std::env::var("VERIF_SIGNER_LOG").is_ok() {
        use slog::Drain;
        let decorator = slog_term::PlainDecorator::new(std::io::stderr());
        let drain = slog_term::CompactFormat::new(decorator).build().fuse();
        let drain = slog_async::Async::new(drain).build().fuse();
        slog::Logger::root(Arc::new(drain), slog::o!())
    } else {
        slog::Logger::root(slog::Discard, slog::o!())
    }
}

#[derive(Clone, Debug)]
pub struct SignerSettings {
    pub publish_attempts: u8,
    pub retention: Option<usize>,
}

pub struct SignerNode {
    pub idx: usize,
    pub party_id: String,
    pub dir: PathBuf,
    pub url: String,
    pub settings: SignerSettings,
    pub kes_secret_key_path: PathBuf,
    pub operational_certificate_path: PathBuf,
    /// the node's block scanner survives a restart of the signer (it is the Cardano node)
    pub block_scanner: Arc<DumbBlockScanner>,
    /// this signer's OWN Cardano node (chain observer double: epoch, chain point, stake distribution);
    /// it survives a restart of the signer. The harness copies the world's state into it before the
    /// signer's ticks, except while `lag_ticks_left > 0`
    pub observer: Arc<FakeChainObserver>,
    /// epoch this signer's node reports (as of the last copy)
    pub node_epoch: u64,
    /// node-lag window: number of this signer's ticks during which its node still is not brought up to date
    pub lag_ticks_left: u32,
    /// world epoch in which the last node-lag window of this signer began
    pub lagged_in_epoch: Option<u64>,
    pub machine: Option<StateMachine>,
    pub restarts: u64,
}

impl SignerNode {
    pub fn new(idx: usize, f: &SignerFixture, dir: PathBuf, url: String, settings: SignerSettings) -> StdResult<SignerNode> {
        Ok(SignerNode {
            idx,
            party_id: f.signer_with_stake.party_id.clone(),
            dir,
            url,
            settings,
            kes_secret_key_path: f.kes_secret_key_path().ok_or_else(|| anyhow::anyhow!("fixture signer without KES key file"))?.to_path_buf(),
            operational_certificate_path: f.operational_certificate_path().ok_or_else(|| anyhow::anyhow!("fixture signer without operational certificate"))?.to_path_buf(),
            block_scanner: Arc::new(DumbBlockScanner::new()),
            observer: Arc::new(FakeChainObserver::new(None)),
            node_epoch: 0,
            lag_ticks_left: 0,
            lagged_in_epoch: None,
            machine: None,
            restarts: 0,
        })
    }

    fn config(&self) -> Configuration {
        Configuration {
            db_directory: self.dir.join("db"),
            data_stores_directory: self.dir.join("stores"),
            aggregator_endpoint: self.url.clone(),
            kes_secret_key_path: Some(self.kes_secret_key_path.clone()),
            operational_certificate_path: Some(self.operational_certificate_path.clone()),
            store_retention_limit: self.settings.retention,
            enable_metrics_server: false,
            ..Configuration::new_sample(&self.party_id)
        }
    }

    pub fn is_up(&self) -> bool {
        self.machine.is_some()
    }

    pub fn stop(&mut self) {
        self.machine = None;
    }

    /// the signer's node catches up with the world: epoch, chain point and stake distribution of the
    /// world's chain observer are copied into the signer's own
    pub async fn sync_node(&mut self, world: &World) -> StdResult<()> {
        let tp = world.chain_observer.current_time_point.read().await.clone();
        let signers = world.chain_observer.signers.read().await.clone();
        self.node_epoch = tp.as_ref().map(|t| *t.epoch).ok_or_else(|| anyhow::anyhow!("the world has no time point"))?;
        self.observer.set_current_time_point(tp).await;
        self.observer.set_signers(signers).await;
        Ok(())
    }

    /// the time point this signer's own node shows (own chain observer, shared immutable file observer)
    pub async fn time_point(&self, world: &World) -> StdResult<TimePoint> {
        MithrilTickerService::new(self.observer.clone(), world.immutable_file_observer.clone()).get_current_time_point().await
    }

    /// (re)start the signer process on its own files
    pub async fn start(&mut self, world: &World) -> StdResult<()> {
        self.machine = None;
        let config = self.config();
        std::fs::create_dir_all(&config.data_stores_directory)?;
        std::fs::create_dir_all(&config.db_directory)?;
        let logger = signer_logger();
        let machine = build_state_machine(&config, world, self.observer.clone(), self.block_scanner.clone(), self.idx, &self.settings, logger).await?;
        self.machine = Some(machine);
        self.restarts += 1;
        Ok(())
    }

    pub async fn state(&self) -> Option<SignerState> {
        match &self.machine {
            Some(m) => Some(m.get_state().await),
            None => None,
        }
    }

    /// "the signer was running during the two previous epochs": the keys it registered then (the
    /// fixture's, which the aggregator holds for the genesis epochs) and the stake distributions it
    /// recorded then are in its stores.
    pub async fn seed_stores(&self, seeds: &[(Epoch, ProtocolInitializer, StakeDistribution)]) -> StdResult<()> {
        let config = self.config();
        std::fs::create_dir_all(&config.data_stores_directory)?;
        let logger = signer_logger();
        let b = DependenciesBuilder::new(&config, logger);
        let conn = Arc::new(b.build_main_sqlite_connection(SQLITE_FILE).await?);
        let pis = ProtocolInitializerRepository::new(conn.clone(), None);
        let stakes = StakePoolStore::new(conn.clone(), None);
        for (epoch, pi, sd) in seeds {
            pis.save_protocol_initializer(*epoch, pi.clone()).await?;
            stakes.save_stakes(*epoch, sd.clone()).await?;
        }
        Ok(())
    }

    pub fn main_db(&self) -> PathBuf {
        self.dir.join("stores").join(SQLITE_FILE)
    }
}

pub const SQLITE_FILE: &str = "signer.sqlite3";
pub const SQLITE_FILE_CARDANO_TRANSACTION: &str = "cardano-transaction.sqlite3";

async fn build_state_machine(
    config: &Configuration,
    world: &World,
    chain_observer: Arc<FakeChainObserver>,
    block_scanner: Arc<DumbBlockScanner>,
    idx: usize,
    settings: &SignerSettings,
    logger: slog::Logger,
) -> StdResult<StateMachine> {
    let dependencies_builder = DependenciesBuilder::new(config, logger.clone());
    let sqlite_connection = Arc::new(dependencies_builder.build_main_sqlite_connection(SQLITE_FILE).await?);
    let sqlite_connection_cardano_transaction_pool =
        Arc::new(dependencies_builder.build_cardano_tx_sqlite_connection_pool(SQLITE_FILE_CARDANO_TRANSACTION, 1).await?);
    let retention = config.store_retention_limit.map(|l| l as u64);

    // the signer's own node: its ticker, its registration (KES period) and its stake distribution
    // all come from this observer, not from the aggregator's
    let ticker_service = Arc::new(MithrilTickerService::new(chain_observer.clone(), world.immutable_file_observer.clone()));
    let digester = world.digester.clone();
    let protocol_initializer_store = Arc::new(ProtocolInitializerRepository::new(sqlite_connection.clone(), retention));
    let stake_store = Arc::new(StakePoolStore::new(sqlite_connection.clone(), retention));
    let era_reader = Arc::new(EraReader::new(world.era_reader_adapter.clone()));
    let era_epoch_token = era_reader.read_era_epoch_token(ticker_service.get_current_epoch().await?).await?;
    let era_checker = Arc::new(EraChecker::new(era_epoch_token.get_current_supported_era()?, era_epoch_token.get_current_epoch()));
    let api_version_provider = Arc::new(APIVersionProvider::new(era_checker.clone()));

    // the real HTTP client of the signer, as built by the signer's DependenciesBuilder (plus a header
    // that tells the front which signer is talking)
    let aggregator_client = Arc::new(
        AggregatorHttpClient::builder(config.aggregator_endpoint.clone())
            .with_headers(HashMap::from([
                ("signer-node-version".to_string(), "0.0.0-verif".to_string()),
                (SIGNER_HEADER.to_string(), idx.to_string()),
            ]))
            .with_api_version_provider(api_version_provider.clone())
            .with_timeout(Duration::from_millis(30000))
            .with_logger(logger.clone())
            .build()?,
    );

    let signed_entity_type_lock = Arc::new(SignedEntityTypeLock::default());
    let mithril_stake_distribution_signable_builder = Arc::new(MithrilStakeDistributionSignableBuilder::default());
    let chain_data_store = Arc::new(SignerCardanoChainDataRepository::new(sqlite_connection_cardano_transaction_pool.clone()));
    let transactions_importer = Arc::new(SignerChainDataImporter::new(Arc::new(CardanoChainDataImporter::new(
        block_scanner,
        chain_data_store.clone(),
        logger.clone(),
    ))));
    let block_range_root_retriever = chain_data_store.clone();
    let cardano_transactions_builder =
        Arc::new(CardanoTransactionsSignableBuilder::<MKTreeStoreSqlite>::new(transactions_importer.clone(), block_range_root_retriever.clone()));
    let cardano_blocks_transactions_builder =
        Arc::new(CardanoBlocksTransactionsSignableBuilder::<MKTreeStoreSqlite>::new(transactions_importer.clone(), block_range_root_retriever));
    let cardano_stake_distribution_builder = Arc::new(CardanoStakeDistributionSignableBuilder::new(stake_store.clone()));
    let cardano_database_signable_builder = Arc::new(CardanoDatabaseSignableBuilder::new(digester.clone(), Path::new(""), logger.clone()));
    let epoch_service = Arc::new(RwLock::new(MithrilEpochService::new(
        era_checker.clone(),
        stake_store.clone(),
        protocol_initializer_store.clone(),
        logger.clone(),
    )));
    let party_id = config.party_id.to_owned().unwrap_or_default();
    let single_signer = Arc::new(MithrilSingleSigner::new(party_id, epoch_service.clone(), logger.clone()));
    let signable_seed_builder_service = Arc::new(SignerSignableSeedBuilder::new(epoch_service.clone(), protocol_initializer_store.clone()));
    let signable_builders_dependencies = SignableBuilderServiceDependencies::new(
        mithril_stake_distribution_signable_builder,
        cardano_transactions_builder,
        cardano_blocks_transactions_builder,
        cardano_stake_distribution_builder,
        cardano_database_signable_builder,
    );
    let signable_builder_service = Arc::new(MithrilSignableBuilderService::new(signable_seed_builder_service, signable_builders_dependencies, logger.clone()));
    let metrics_service = Arc::new(MetricsService::new(logger.clone())?);
    let cardano_transactions_preloader = Arc::new(CardanoTransactionsPreloader::new(
        signed_entity_type_lock.clone(),
        transactions_importer.clone(),
        BlockNumber(0),
        chain_observer.clone(),
        logger.clone(),
        Arc::new(CardanoTransactionsPreloaderActivation::new(false)),
    ));
    let signed_beacon_repository = Arc::new(SignedBeaconRepository::new(sqlite_connection.clone(), retention));
    let upkeep_service = Arc::new(SignerUpkeepService::new(
        sqlite_connection.clone(),
        sqlite_connection_cardano_transaction_pool,
        signed_entity_type_lock.clone(),
        vec![signed_beacon_repository.clone(), stake_store.clone(), protocol_initializer_store.clone()],
        logger.clone(),
    ));
    let network_configuration_service = Arc::new(HttpMithrilNetworkConfigurationProvider::new(aggregator_client.clone(), logger.clone()));

    // production stack of the signature publisher (no DMQ node configured => first publisher is the no-op)
    let signature_publisher: Arc<dyn SignaturePublisher> = {
        let first = SignaturePublisherRetrier::new(Arc::new(SignaturePublisherNoop) as Arc<dyn SignaturePublisher>, SignaturePublishRetryPolicy::never());
        let second = SignaturePublisherRetrier::new(
            aggregator_client.clone(),
            SignaturePublishRetryPolicy { attempts: settings.publish_attempts, delay_between_attempts: Duration::from_millis(1) },
        );
        Arc::new(SignaturePublisherDelayer::new(Arc::new(first), Arc::new(second), Duration::from_millis(1), logger.clone()))
    };
    let certifier = Arc::new(SignerCertifierService::new(
        signed_beacon_repository.clone(),
        Arc::new(SignerSignedEntityConfigProvider::new(epoch_service.clone())),
        signed_entity_type_lock.clone(),
        single_signer.clone(),
        signature_publisher,
        logger.clone(),
    ));
    let kes_signer = Some(Arc::new(KesSignerStandard::new(
        config.kes_secret_key_path.clone().unwrap(),
        config.operational_certificate_path.clone().unwrap(),
    )) as Arc<dyn KesSigner>);

    let services = SignerDependencyContainer {
        signers_registration_retriever: aggregator_client.clone(),
        ticker_service: ticker_service.clone(),
        chain_observer: chain_observer.clone(),
        digester: digester.clone(),
        protocol_initializer_store: protocol_initializer_store.clone(),
        single_signer: single_signer.clone(),
        stake_store: stake_store.clone(),
        era_checker: era_checker.clone(),
        era_reader,
        api_version_provider,
        signable_builder_service,
        metrics_service: metrics_service.clone(),
        signed_entity_type_lock,
        cardano_transactions_preloader,
        upkeep_service,
        epoch_service,
        certifier,
        signer_registration_publisher: aggregator_client.clone(),
        kes_signer,
        network_configuration_service,
    };
    let runner = Box::new(SignerRunner::new(config.clone(), services, logger.clone()));
    Ok(StateMachine::new(SignerState::Init, runner, Duration::from_secs(5), metrics_service, logger))
}
