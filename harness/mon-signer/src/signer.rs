//! A REAL signer: `StateMachine` + `SignerRunner` over the container that the signer's OWN
//! `mithril_signer::dependency_injection::DependenciesBuilder::build()` returns (the production wiring
//! is code under test: nothing of it is copied here). `build()` runs on a `Configuration` (from
//! `Configuration::new_sample`: devnet, bootstrap era reader adapter, no DMQ socket, metrics server off)
//! that names the signer's own directories, its own listener of the front as aggregator endpoint, the
//! fixture's KES key / operational certificate files, the store retention limit and the signature
//! publisher settings (retry attempts 1-3, delays of 1 ms, delayer not skipped).
//!
//! REAL, exactly as `build()` made them: the certifier with the production signature-publisher stack
//! (delayer / retriers / no-op or aggregator HTTP client), the aggregator HTTP client (registration
//! publisher, registrations retriever, signature publisher), the network configuration provider, the
//! epoch service, the single signer (party id computed from the operational certificate), the
//! protocol-initializer / stake / signed-beacon stores over FILE-BACKED sqlite (a restart really
//! restarts on the signer's own files), the upkeep service, the KES signer, the era reader / checker,
//! the API version provider, the metrics service, the signed entity type lock, and the ticker -- built
//! by `build()` itself over the doubles that its two override hooks
//! (`override_chain_observer_builder`, `override_immutable_file_observer_builder`) hand over.
//!
//! DOUBLES, for the Cardano node only: the signer's OWN chain observer (kept in step with the
//! world's by the harness, except during a node-lag window) and the immutable file observer SHARED
//! with the aggregator -- both through the override hooks; and, overwritten in the returned container
//! because they must compute the same messages as the aggregator's doubles: the digester (the
//! aggregator's `DumbImmutableDigester`), the signable builder service (the real
//! `MithrilSignableBuilderService`, seed builder and signable builders, re-assembled over that digester
//! and a `DumbBlockScanner` instead of the Pallas chain reader, on the SAME epoch service and protocol
//! initializer store Arcs that `build()` created; the stake distribution retriever and the chain data
//! store are the real repositories over connections of their own to the signer's sqlite files,
//! because `build()` keeps its connections to itself) and the Cardano transactions preloader
//! (disabled; same importer as the signable builders).
use std::collections::HashMap;
use std::path::{Path, PathBuf};
use std::sync::{Arc, Mutex, OnceLock};
use std::time::Duration;

use mithril_cardano_node_chain::{
    chain_importer::CardanoChainDataImporter,
    chain_observer::ChainObserver,
    test::double::{DumbBlockScanner, FakeChainObserver},
};
use mithril_cardano_node_internal_database::{
    signable_builder::CardanoDatabaseSignableBuilder, test::double::DumbImmutableFileObserver, ImmutableFileObserver,
};
use mithril_common::{
    crypto_helper::ProtocolInitializer,
    entities::{BlockNumber, Epoch, StakeDistribution, TimePoint},
    signable_builder::{
        CardanoBlocksTransactionsSignableBuilder, CardanoStakeDistributionSignableBuilder, CardanoTransactionsSignableBuilder,
        MithrilSignableBuilderService, MithrilStakeDistributionSignableBuilder, SignableBuilderServiceDependencies,
    },
    test::builder::SignerFixture,
    StdResult,
};
use mithril_persistence::store::StakeStorer;
use mithril_signed_entity_preloader::{CardanoTransactionsPreloader, CardanoTransactionsPreloaderActivation};
use mithril_signer::{
    database::repository::{ProtocolInitializerRepository, SignerCardanoChainDataRepository, StakePoolStore},
    dependency_injection::DependenciesBuilder,
    services::{SignerChainDataImporter, SignerSignableSeedBuilder},
    store::{MKTreeStoreSqlite, ProtocolInitializerStorer},
    Configuration, SignerRunner, SignerState, StateMachine,
};
use mithril_ticker::{MithrilTickerService, TickerService};
use mon_agg::sim::World;

/// The Cardano node a signer process finds when it starts: the override hooks of the signer's
/// `DependenciesBuilder` are plain `fn(&Configuration)` pointers (they cannot capture anything), so the
/// doubles are looked up by the `db_directory` of the configuration (unique per signer and history).
struct NodeDoubles {
    chain_observer: Arc<FakeChainObserver>,
    immutable_file_observer: Arc<DumbImmutableFileObserver>,
}

fn nodes() -> &'static Mutex<HashMap<PathBuf, NodeDoubles>> {
    static NODES: OnceLock<Mutex<HashMap<PathBuf, NodeDoubles>>> = OnceLock::new();
    NODES.get_or_init(|| Mutex::new(HashMap::new()))
}

fn chain_observer_of(config: &Configuration) -> StdResult<Arc<dyn ChainObserver>> {
    nodes()
        .lock()
        .unwrap()
        .get(&config.db_directory)
        .map(|n| n.chain_observer.clone() as Arc<dyn ChainObserver>)
        .ok_or_else(|| anyhow::anyhow!("no Cardano node double registered for {}", config.db_directory.display()))
}

fn immutable_file_observer_of(config: &Configuration) -> StdResult<Arc<dyn ImmutableFileObserver>> {
    nodes()
        .lock()
        .unwrap()
        .get(&config.db_directory)
        .map(|n| n.immutable_file_observer.clone() as Arc<dyn ImmutableFileObserver>)
        .ok_or_else(|| anyhow::anyhow!("no Cardano node double registered for {}", config.db_directory.display()))
}

pub fn signer_logger() -> slog::Logger {
    if std::env::var("VERIF_SIGNER_LOG").is_ok() {
        use slog::Drain;
        let decorator = slog_term::PlainDecorator::new(std::io::stderr());
        let drain = slog_term::CompactFormat::new(decorator).build().fuse();
        let drain = slog_async::Async::new(drain).build().fuse();
        slog::Logger::root(Arc::new(drain), slog::o!())
    } else {
        slog::Logger::root(slog::Discard, slog::o!())
    }
}

#[derive(Clone, Debug)]
pub struct SignerSettings {
    pub publish_attempts: u8,
    pub retention: Option<usize>,
}

pub struct SignerNode {
    pub idx: usize,
    pub party_id: String,
    pub dir: PathBuf,
    pub url: String,
    pub settings: SignerSettings,
    pub kes_secret_key_path: PathBuf,
    pub operational_certificate_path: PathBuf,
    /// the node's block scanner survives a restart of the signer (it is the Cardano node)
    pub block_scanner: Arc<DumbBlockScanner>,
    /// this signer's OWN Cardano node (chain observer double: epoch, chain point, stake distribution);
    /// it survives a restart of the signer. The harness copies the world's state into it before the
    /// signer's ticks, except while `lag_ticks_left > 0`
    pub observer: Arc<FakeChainObserver>,
    /// epoch this signer's node reports (as of the last copy)
    pub node_epoch: u64,
    /// node-lag window: number of this signer's ticks during which its node still is not brought up to date
    pub lag_ticks_left: u32,
    /// world epoch in which the last node-lag window of this signer began
    pub lagged_in_epoch: Option<u64>,
    pub machine: Option<StateMachine>,
    pub restarts: u64,
}

impl SignerNode {
    pub fn new(idx: usize, f: &SignerFixture, dir: PathBuf, url: String, settings: SignerSettings) -> StdResult<SignerNode> {
        Ok(SignerNode {
            idx,
            party_id: f.signer_with_stake.party_id.clone(),
            dir,
            url,
            settings,
            kes_secret_key_path: f.kes_secret_key_path().ok_or_else(|| anyhow::anyhow!("fixture signer without KES key file"))?.to_path_buf(),
            operational_certificate_path: f.operational_certificate_path().ok_or_else(|| anyhow::anyhow!("fixture signer without operational certificate"))?.to_path_buf(),
            block_scanner: Arc::new(DumbBlockScanner::new()),
            observer: Arc::new(FakeChainObserver::new(None)),
            node_epoch: 0,
            lag_ticks_left: 0,
            lagged_in_epoch: None,
            machine: None,
            restarts: 0,
        })
    }

    fn config(&self) -> Configuration {
        let mut config = Configuration {
            db_directory: self.dir.join("db"),
            data_stores_directory: self.dir.join("stores"),
            // this signer's own listener of the front
            aggregator_endpoint: self.url.clone(),
            kes_secret_key_path: Some(self.kes_secret_key_path.clone()),
            operational_certificate_path: Some(self.operational_certificate_path.clone()),
            store_retention_limit: self.settings.retention,
            enable_metrics_server: false,
            // the real digester is replaced by the aggregator's double: no cache file needed
            disable_digests_cache: true,
            ..Configuration::new_sample(&self.party_id)
        };
        // the production wiring reads the publication policy from the configuration
        config.signature_publisher_config.retry_attempts = self.settings.publish_attempts;
        config.signature_publisher_config.retry_delay_ms = 1;
        config.signature_publisher_config.delayer_delay_ms = 1;
        config.signature_publisher_config.skip_delayer = false;
        config
    }

    pub fn is_up(&self) -> bool {
        self.machine.is_some()
    }

    pub fn stop(&mut self) {
        self.machine = None;
    }

    /// the signer's node catches up with the world: epoch, chain point and stake distribution of the
    /// world's chain observer are copied into the signer's own
    pub async fn sync_node(&mut self, world: &World) -> StdResult<()> {
        let tp = world.chain_observer.current_time_point.read().await.clone();
        let signers = world.chain_observer.signers.read().await.clone();
        self.node_epoch = tp.as_ref().map(|t| *t.epoch).ok_or_else(|| anyhow::anyhow!("the world has no time point"))?;
        self.observer.set_current_time_point(tp).await;
        self.observer.set_signers(signers).await;
        Ok(())
    }

    /// the time point this signer's own node shows (own chain observer, shared immutable file observer)
    pub async fn time_point(&self, world: &World) -> StdResult<TimePoint> {
        MithrilTickerService::new(self.observer.clone(), world.immutable_file_observer.clone()).get_current_time_point().await
    }

    /// (re)start the signer process on its own files
    pub async fn start(&mut self, world: &World) -> StdResult<()> {
        self.machine = None;
        let config = self.config();
        std::fs::create_dir_all(&config.data_stores_directory)?;
        std::fs::create_dir_all(&config.db_directory)?;
        let logger = signer_logger();
        let machine = build_state_machine(&config, world, self.observer.clone(), self.block_scanner.clone(), logger).await?;
        self.machine = Some(machine);
        self.restarts += 1;
        Ok(())
    }

    pub async fn state(&self) -> Option<SignerState> {
        match &self.machine {
            Some(m) => Some(m.get_state().await),
            None => None,
        }
    }

    /// "the signer was running during the two previous epochs": the keys it registered then (the
    /// fixture's, which the aggregator holds for the genesis epochs) and the stake distributions it
    /// recorded then are in its stores.
    pub async fn seed_stores(&self, seeds: &[(Epoch, ProtocolInitializer, StakeDistribution)]) -> StdResult<()> {
        let config = self.config();
        std::fs::create_dir_all(&config.data_stores_directory)?;
        let logger = signer_logger();
        let b = DependenciesBuilder::new(&config, logger);
        let conn = Arc::new(b.build_main_sqlite_connection(SQLITE_FILE).await?);
        let pis = ProtocolInitializerRepository::new(conn.clone(), None);
        let stakes = StakePoolStore::new(conn.clone(), None);
        for (epoch, pi, sd) in seeds {
            pis.save_protocol_initializer(*epoch, pi.clone()).await?;
            stakes.save_stakes(*epoch, sd.clone()).await?;
        }
        Ok(())
    }

    pub fn main_db(&self) -> PathBuf {
        self.dir.join("stores").join(SQLITE_FILE)
    }
}

pub const SQLITE_FILE: &str = "signer.sqlite3";
pub const SQLITE_FILE_CARDANO_TRANSACTION: &str = "cardano-transaction.sqlite3";

async fn build_state_machine(
    config: &Configuration,
    world: &World,
    chain_observer: Arc<FakeChainObserver>,
    block_scanner: Arc<DumbBlockScanner>,
    logger: slog::Logger,
) -> StdResult<StateMachine> {
    // ---- the production wiring, on this signer's own Cardano node doubles
    nodes().lock().unwrap().insert(
        config.db_directory.clone(),
        NodeDoubles { chain_observer: chain_observer.clone(), immutable_file_observer: world.immutable_file_observer.clone() },
    );
    let mut dependencies_builder = DependenciesBuilder::new(config, logger.clone());
    dependencies_builder
        .override_chain_observer_builder(chain_observer_of)
        .override_immutable_file_observer_builder(immutable_file_observer_of);
    let built = dependencies_builder.build().await;
    nodes().lock().unwrap().remove(&config.db_directory);
    let mut services = built?;

    // ---- what must agree with the aggregator's doubles: the messages to sign are computed over the
    // aggregator's dumb digester and over a dumb block scanner (the node's, it survives a restart of the
    // signer) instead of the Pallas chain reader; everything else of the container stays what build() made.
    // The signable builders work on the epoch service and the stores build() created (the certifier
    // and the single signer hold the same ones).
    let sqlite_connection_cardano_transaction_pool =
        Arc::new(dependencies_builder.build_cardano_tx_sqlite_connection_pool(SQLITE_FILE_CARDANO_TRANSACTION, 1).await?);
    let digester = world.digester.clone();
    let chain_data_store = Arc::new(SignerCardanoChainDataRepository::new(sqlite_connection_cardano_transaction_pool));
    let transactions_importer = Arc::new(SignerChainDataImporter::new(Arc::new(CardanoChainDataImporter::new(
        block_scanner,
        chain_data_store.clone(),
        logger.clone(),
    ))));
    let block_range_root_retriever = chain_data_store.clone();
    let cardano_transactions_builder =
        Arc::new(CardanoTransactionsSignableBuilder::<MKTreeStoreSqlite>::new(transactions_importer.clone(), block_range_root_retriever.clone()));
    let cardano_blocks_transactions_builder =
        Arc::new(CardanoBlocksTransactionsSignableBuilder::<MKTreeStoreSqlite>::new(transactions_importer.clone(), block_range_root_retriever));
    // the container only exposes its stake store as `dyn StakeStorer`; the signable builder wants a
    // `StakeDistributionRetriever`: the real `StakePoolStore` again, over a second connection to the
    // same file (the repository holds no state of its own)
    let stake_retriever = Arc::new(StakePoolStore::new(
        Arc::new(dependencies_builder.build_main_sqlite_connection(SQLITE_FILE).await?),
        config.store_retention_limit.map(|l| l as u64),
    ));
    let cardano_stake_distribution_builder = Arc::new(CardanoStakeDistributionSignableBuilder::new(stake_retriever));
    let cardano_database_signable_builder = Arc::new(CardanoDatabaseSignableBuilder::new(digester.clone(), Path::new(""), logger.clone()));
    let signable_seed_builder_service =
        Arc::new(SignerSignableSeedBuilder::new(services.epoch_service.clone(), services.protocol_initializer_store.clone()));
    let signable_builders_dependencies = SignableBuilderServiceDependencies::new(
        Arc::new(MithrilStakeDistributionSignableBuilder::default()),
        cardano_transactions_builder,
        cardano_blocks_transactions_builder,
        cardano_stake_distribution_builder,
        cardano_database_signable_builder,
    );
    services.digester = digester;
    services.signable_builder_service =
        Arc::new(MithrilSignableBuilderService::new(signable_seed_builder_service, signable_builders_dependencies, logger.clone()));
    services.cardano_transactions_preloader = Arc::new(CardanoTransactionsPreloader::new(
        services.signed_entity_type_lock.clone(),
        transactions_importer,
        BlockNumber(0),
        chain_observer,
        logger.clone(),
        Arc::new(CardanoTransactionsPreloaderActivation::new(false)),
    ));

    let metrics_service = services.metrics_service.clone();
    let runner = Box::new(SignerRunner::new(config.clone(), services, logger.clone()));
    Ok(StateMachine::new(SignerState::Init, runner, Duration::from_secs(5), metrics_service, logger))
}
