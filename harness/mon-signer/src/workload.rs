//! Seeded random histories for C20.
use crate::front::ReqKind;
use crate::hist::{Ev, FaultSpec, Run};
use mithril_common::certificate_chain::{CertificateVerifier, MithrilCertificateVerifier};
use mithril_common::entities::{Certificate, ProtocolParameters, SignedEntityTypeDiscriminants};
use mon_agg::hist::{genesis_verifier, TableRetriever};
use rand_chacha::ChaCha20Rng;
use serde_json::json;
use std::collections::BTreeMap;
use std::path::PathBuf;
use std::sync::Arc;
use vcore::rnd;
use vcore::Monitor;

pub const RULE: &str = "seeded random histories over 4-8 consecutive epochs of 1-3 REAL signers (StateMachine + SignerRunner over the container returned by the signer's OWN mithril_signer::dependency_injection::DependenciesBuilder::build() -- the production wiring is code under test, the harness does not copy it: certifier with the production signature-publisher stack (delayer over retriers over no-op / aggregator HTTP client; 1-3 attempts, set through Configuration.signature_publisher_config), AggregatorHttpClient as registration publisher / registrations retriever / signature publisher, HttpMithrilNetworkConfigurationProvider, epoch service, single signer (party id from the operational certificate), protocol-initializer / stake / signed-beacon stores over file-backed sqlite with the configured retention limit, upkeep service, KesSignerStandard over the fixture's key files, era reader / checker (bootstrap adapter), ticker, metrics service are all what build() made; the chain observer and the immutable file observer doubles enter through build()'s two override hooks; overwritten in the returned container: digester (the aggregator's dumb digester), signable builder service (real MithrilSignableBuilderService / seed builder / signable builders re-assembled over the dumb digester and a dumb block scanner, on build()'s epoch service and protocol initializer store, real StakePoolStore and chain data repository over connections of their own to the same sqlite files) and the Cardano transactions preloader (disabled); sources of /repo/mithril-signer compiled through signer-shim because mithril-signer and mithril-aggregator each define a #[global_allocator]) plus 0-2 scripted honest co-signers, against the REAL aggregator of mon-agg's Sim in the same process, through a loopback HTTP front before the aggregator's real warp router (one listener per real signer, all sharing the fault plans and the boundary log: the aggregator endpoint of signer i is listener i, which is how a request is attributed to its signer -- the clients built by the signer's own wiring carry nothing that names them). The aggregator and every real signer have their OWN fake chain observer (their Cardano node: epoch, chain point, stake distribution; ticker, registration and stake recording of a signer read its own); the harness copies the world's state into a signer's node before each of its ticks, except during a node-lag window; immutable file observer and digester are shared. Events: aggregator ticks, signer ticks, epoch changes (with or without a new stake distribution), new immutable files, new blocks (CardanoTransactions enabled in half of the histories), signer restarts / stops (whole registration windows included) / starts on their own files, aggregator restarts (registration round not yet open until its next tick) and outages, faults on individual requests (dropped request, delivered-but-reply-lost, genuine epoch-settings reply of an earlier epoch served again, genuine 'registration round not yet opened' reply served again); PROTOCOL PARAMETER CHANGES: in 1/3 of the random histories the aggregator is restarted once or twice, at a random point of an epoch early enough for the new keys to come into force, with k and/or m and/or phi_f changed in its configuration (k 3-5, m 60-119, phi_f 0.9-0.97) -- the real aggregator then announces the new parameters for a later registration round under its own epoch offsets, so that for one epoch the keys in force and the keys of the next epoch were made under different parameters; NODE LAG: in 1/2 of the random histories, at 45% of the epoch changes the own node of one real signer keeps showing the old epoch (old stake distribution, old chain point) for 1-4 of that signer's ticks and then catches up; in half of the windows that signer is restarted (or started) inside the window, the aggregator mostly answers for the new epoch already (or is down / restarted / not yet ticked, as the other events have it), the lagging signer is ticked soon and new immutable files appear meanwhile. Five histories are scripted without any other fault: honest; one signer down for a whole epoch; its registrations dropped for a whole epoch; the aggregator restarted with k, m and phi_f changed during the second and fourth epoch; one signer restarted while its node lags for 3 ticks at the changes to the third and fifth epoch, new stake distribution at every change. Model (harness's own, from the boundary log only, epoch arithmetic written out): a registration sent while the sender's node shows chain epoch c and acknowledged by the aggregator is in force for signing at c+2, with the stake of the chain's distribution of epoch c, under the protocol parameters the REAL aggregator announced for the registration round of epoch c (signer_registration_protocol of its genuine /epoch-settings replies whose epoch is c -- to the signers, or to the harness's own request after every aggregator tick; the harness never computes a parameter set; the genesis rounds are the fixture's); the scripted co-signers make their keys with the parameters of the genuine epoch-settings reply they get when they register (and wait while it announces another epoch), exactly as a real signer. Oracle over the boundary log, every signature judged for the epoch its signer's OWN node shows (= the world's unless the node lags): E1 at most one acknowledged publication and one sigma per (signer, signed entity type, beacon), byte-identical re-sends counted; a failed publication is sent again while the beacon is current; E2 every sigma verifies with mithril-stm under the key THIS signer registered (as logged: last acknowledged registration sent during epoch E-2) in the signer set / stakes / announced parameters computed from the log, and the real aggregator accepts it (201/202; 410 = late; any other reply to a well-formed signature while the aggregator is at epoch E or E-1 is a violation; a buffered signature must be taken over when the aggregator opens that very message); E3 signatures only in ReadyToSign of the current epoch and with an eligible acknowledged registration; E4 after 8 consecutive undisturbed ticks of an epoch (aggregator reachable, working, same epoch, the signer's node caught up: a tick inside a lag window is a disturbance) a signer has registered for the round of the epoch and, if it holds the key in force, has signed (also after a restart); all certificates the aggregator sealed (across the parameter changes) verify with the public verifier. Non-trivial = a signature of a real signer accepted (201/202) by the aggregator in a signer history that already contained a fault / restart / stop / node lag; distinct by (history, signer, beacon). evaluations = oracle judgements (registrations, signature publications, retry / hand-over / progress checks, certificates, histories). Counters: histories_with_a_protocol_parameter_change, histories_with_a_node_lag_window, signatures_judged:under_changed_protocol_parameters / :in_an_epoch_whose_next_protocol_parameters_differ / :while_the_signers_node_lagged / :after_a_node_lag_in_the_same_epoch / :within_3_epochs_after_a_node_lag.";

pub const ASSUMPTIONS: &[&str] = &[
    "doubles for the Cardano node only (one fake chain observer per node -- the aggregator's and each real signer's; immutable file observer and digester shared by both sides; dumb block scanner); on the signer side the observers go in through the override hooks of the signer's DependenciesBuilder, while digester, signable builder service and transactions preloader are overwritten in the container build() returned -- the part of build() that wires the Pallas chain reader / block scanner / chunked and pruning importers / Cardano immutable digester / preloader activation is therefore executed but its product is not used",
    "signer configuration = Configuration::new_sample + own directories, own front listener as aggregator endpoint, fixture KES key and operational certificate, retention limit none or 3-5, signature publisher: 1-3 attempts, 1 ms retry delay, 1 ms delayer delay, delayer not skipped; no DMQ node (first publisher of the delayer is the no-op), no relay endpoint, digests cache disabled, metrics server off",
    "signed entity types enabled: MithrilStakeDistribution, CardanoStakeDistribution, CardanoDatabase, and CardanoTransactions in half of the histories (dumb block scanners fed with the same blocks on every node)",
    "restarts happen between ticks (clean stop); ticks of the different nodes do not overlap in time",
    "faults are injected per HTTP request at the front (on the listener of the signer concerned): 503 without delivery, 504 after delivery, replay of a genuine earlier epoch-settings reply",
    "protocol parameters change only through the aggregator's configuration at a restart (as an operator does it); the ranges keep every signer winning lotteries and the quorum reachable",
    "a signer's node lags by at most one epoch, only right after an epoch change, and shows a consistent old state (epoch, chain point, stake distribution) until it catches up; it never goes backwards; the immutable file number is not part of the lag (shared observer)",
    "the parameters of a registration round are taken from the signer_registration_protocol field of the aggregator's genuine epoch-settings replies (still served by the pinned tree, marked deprecated); the harness cross-checks them against /protocol-configuration/{epoch+1} as a diagnostic only",
    "the signers' key generation uses the operating system's randomness (code under test); the schedule is seeded",
];

fn fault_specs(rng: &mut ChaCha20Rng) -> Vec<FaultSpec> {
    let kinds = [ReqKind::Settings, ReqKind::ProtoConfig, ReqKind::RegisterSigner, ReqKind::RegisterSignature];
    let mut v = vec![];
    let n = 1 + rnd::usize_below(rng, 2);
    for _ in 0..n {
        let f = match rnd::below(rng, 13) {
            0 => FaultSpec { on: None, kind: "drop", n: 1 + rnd::below(rng, 3) as u32 },
            1..=3 => FaultSpec { on: Some(*rnd::pick(rng, &kinds)), kind: "drop", n: 1 + rnd::below(rng, 2) as u32 },
            4..=5 => FaultSpec { on: Some(ReqKind::RegisterSigner), kind: "lose-reply", n: 1 },
            6..=8 => FaultSpec { on: Some(ReqKind::RegisterSignature), kind: "lose-reply", n: 1 + rnd::below(rng, 3) as u32 },
            9 => FaultSpec { on: None, kind: "lose-reply", n: 1 + rnd::below(rng, 2) as u32 },
            10 => FaultSpec { on: Some(ReqKind::RegisterSigner), kind: "round-not-open", n: 1 + rnd::below(rng, 2) as u32 },
            _ => FaultSpec { on: Some(ReqKind::Settings), kind: "stale-settings", n: 1 },
        };
        v.push(f);
    }
    v
}

/// protocol parameters that differ from `cur` in k and/or m and/or phi_f (small ranges: every signer
/// still wins lotteries, the quorum stays reachable)
fn changed_parameters(rng: &mut ChaCha20Rng, cur: &ProtocolParameters) -> (u64, u64, f64) {
    loop {
        let k = if rnd::chance(rng, 1, 2) { 3 + rnd::below(rng, 3) } else { cur.k };
        let m = if rnd::chance(rng, 1, 2) { 60 + rnd::below(rng, 60) } else { cur.m };
        let phi_f = if rnd::chance(rng, 1, 2) { *rnd::pick(rng, &[0.9, 0.92, 0.95, 0.97]) } else { cur.phi_f };
        if k != cur.k || m != cur.m || phi_f != cur.phi_f {
            return (k, m, phi_f);
        }
    }
}

/// `scenario`: None = random history; "honest" = no fault at all; "missed-round" = no fault except that
/// real signer 1 (of 2, plus one scripted co-signer) is down during the whole third epoch;
/// "lost-registration" = no fault except that its registration requests are dropped during that epoch;
/// "parameter-change" = no fault except that the aggregator is restarted with changed protocol
/// parameters during the second (and fourth) epoch; "node-lag" = no fault except that at the changes to
/// the third and fifth epoch (new stake distribution at every change) real signer 1 is restarted while
/// its own node stays at the old epoch for its next 3 ticks (a new immutable file appears meanwhile)
pub async fn one_history(mon: &mut Monitor, rng: &mut ChaCha20Rng, dir: PathBuf, hid: &str, scenario: Option<&str>) -> anyhow::Result<()> {
    let honest = scenario.is_some();
    let missed_round = scenario == Some("missed-round");
    // "lost-registration": no fault except that every registration request of real signer 1 is dropped
    // during the whole third epoch
    let lost_registration = scenario == Some("lost-registration");
    let scripted_parameter_change = scenario == Some("parameter-change");
    let scripted_node_lag = scenario == Some("node-lag");
    let mut types = vec![SignedEntityTypeDiscriminants::CardanoStakeDistribution, SignedEntityTypeDiscriminants::CardanoDatabase];
    let with_transactions = !honest && rnd::chance(rng, 1, 2);
    if with_transactions {
        types.insert(1, SignedEntityTypeDiscriminants::CardanoTransactions);
        mon.count("histories_with_cardano_transactions");
    }
    let mut run = Run::start(dir, rng, hid, types, if honest && scenario != Some("honest") { Some((2, 1)) } else { None }).await?;
    let mut n_epochs = 4 + rnd::below(rng, 5);
    if scripted_parameter_change || scripted_node_lag {
        n_epochs = n_epochs.max(6);
    }
    // ---- protocol parameter changes: epochs (index within the history) during which the aggregator is
    // restarted with changed parameters; early enough for the keys registered under the new parameters
    // to come into force before the history ends
    let mut parameter_change_in: Vec<u64> = vec![];
    if scripted_parameter_change {
        parameter_change_in = vec![1, 3];
    } else if !honest && rnd::chance(rng, 1, 3) {
        let first = rnd::below(rng, n_epochs - 2);
        parameter_change_in.push(first);
        if first + 1 < n_epochs - 2 && rnd::chance(rng, 1, 3) {
            parameter_change_in.push(first + 1 + rnd::below(rng, n_epochs - 2 - (first + 1)));
        }
    }
    // ---- node lag: does this history contain lag windows at all
    let lag_history = scripted_node_lag || (!honest && rnd::chance(rng, 1, 2));
    let n_real = run.n_real();
    let n_scripted = run.scripted.len();
    mon.count(&format!("histories_with_{n_real}_real_signers"));
    mon.count(&format!("histories_with_{n_scripted}_scripted_signers"));
    if missed_round {
        mon.count("histories_scripted:one_signer_down_for_one_whole_epoch");
    } else if lost_registration {
        mon.count("histories_scripted:registrations_of_one_signer_dropped_for_one_whole_epoch");
    } else if scripted_parameter_change {
        mon.count("histories_scripted:aggregator_restarted_with_changed_parameters_no_other_fault");
    } else if scripted_node_lag {
        mon.count("histories_scripted:restarted_signer_with_lagging_node_at_epoch_changes_no_other_fault");
    } else if honest {
        mon.count("histories_without_any_fault");
    }
    let debug = std::env::var("VERIF_DEBUG").is_ok();
    let mut dead = false;
    // (signer, restart it right after the epoch change) of the lag window opened by the last epoch change
    let mut lag_opened: Option<(usize, bool)> = None;
    for epoch_i in 0..n_epochs {
        // ---- who is kept down during this whole epoch (misses the registration round)
        let mut down_for_epoch = vec![false; n_real];
        if missed_round && epoch_i == 2 {
            down_for_epoch[1] = true;
        }
        if !honest && epoch_i > 0 {
            for i in 0..n_real {
                let others = n_real + n_scripted > 1;
                if others && rnd::chance(rng, 10, 100) {
                    down_for_epoch[i] = true;
                }
            }
        }
        for i in 0..n_real {
            if down_for_epoch[i] && run.signers[i].is_up() {
                run.apply(&Ev::SignerStop(i), mon).await?;
            } else if !down_for_epoch[i] && !run.signers[i].is_up() {
                run.apply(&Ev::SignerStart(i), mon).await?;
            }
        }
        let scripted_registers: Vec<bool> = (0..n_scripted).map(|_| honest || rnd::chance(rng, 88, 100)).collect();
        // ---- the aggregator usually notices the epoch promptly (more often when a signer's node lags: the
        // aggregator then answers for the new epoch while that node still shows the old one)
        if honest || rnd::chance(rng, if lag_opened.is_some() { 8 } else { 6 }, 10) {
            run.apply(&Ev::AggTick, mon).await?;
            run.apply(&Ev::AggTick, mon).await?;
        }
        // ---- the signer whose node lags is restarted (or started) inside the lag window
        if let Some((i, true)) = lag_opened {
            if !down_for_epoch[i] {
                let ev = if run.signers[i].is_up() { Ev::SignerRestart(i) } else { Ev::SignerStart(i) };
                run.apply(&ev, mon).await?;
                mon.count("node_lag_windows:signer_restarted_inside_the_window");
            }
        }
        let change_parameters = parameter_change_in.contains(&epoch_i);
        if change_parameters && honest {
            // scripted: k, m and phi_f all change
            let cur = run.agg.sim.cfg.protocol_parameters.clone();
            let (k, m, phi_f) = (3 + (cur.k - 3 + 1) % 3, 60 + (cur.m.max(60) - 60 + 23) % 60, if cur.phi_f == 0.95 { 0.9 } else { 0.95 });
            run.apply(&Ev::AggRestart { parameters: Some((k, m, phi_f)) }, mon).await?;
        }
        // ---- random part
        let len = if honest { 0 } else { 8 + rnd::usize_below(rng, 22) };
        let change_parameters_at = if change_parameters && !honest { Some(rnd::usize_below(rng, len)) } else { None };
        for pos in 0..len {
            if change_parameters_at == Some(pos) {
                let (k, m, phi_f) = changed_parameters(rng, &run.agg.sim.cfg.protocol_parameters);
                run.apply(&Ev::AggRestart { parameters: Some((k, m, phi_f)) }, mon).await?;
            }
            // while a node lags: its signer ticks soon, and sometimes a new immutable file appears (a
            // beacon of the old epoch the lagging signer has not signed yet)
            if let Some(i) = (0..n_real).find(|i| run.signers[*i].lag_ticks_left > 0 && run.signers[*i].is_up()) {
                if rnd::chance(rng, 30, 100) {
                    let faults = if rnd::chance(rng, 20, 100) { fault_specs(rng) } else { vec![] };
                    run.apply(&Ev::SignerTick { i, faults }, mon).await?;
                }
                if rnd::chance(rng, 12, 100) {
                    run.apply(&Ev::NewImmutable, mon).await?;
                }
            }
            let roll = rnd::below(rng, 100);
            let ev = match roll {
                0..=21 => Ev::AggTick,
                22..=61 => {
                    let i = rnd::usize_below(rng, n_real);
                    let faults = if rnd::chance(rng, 30, 100) { fault_specs(rng) } else { vec![] };
                    Ev::SignerTick { i, faults }
                }
                62..=67 => {
                    if with_transactions && rnd::chance(rng, 1, 2) { Ev::Blocks(10 + rnd::below(rng, 40)) } else { Ev::NewImmutable }
                }
                68..=72 => {
                    let i = rnd::usize_below(rng, n_real);
                    if run.signers[i].is_up() { Ev::SignerRestart(i) } else { Ev::AggTick }
                }
                73..=75 => {
                    let i = rnd::usize_below(rng, n_real);
                    if run.signers[i].is_up() { Ev::SignerStop(i) } else if !down_for_epoch[i] { Ev::SignerStart(i) } else { Ev::AggTick }
                }
                76..=77 => Ev::AggRestart { parameters: None },
                78..=81 => {
                    if run.agg_down { Ev::AggDown(false) } else if rnd::chance(rng, 1, 2) { Ev::AggDown(true) } else { Ev::AggTick }
                }
                82..=90 => {
                    if n_scripted > 0 {
                        let j = rnd::usize_below(rng, n_scripted);
                        if scripted_registers[j] { Ev::ScriptedRegister(j) } else { Ev::AggTick }
                    } else {
                        Ev::SignerTick { i: rnd::usize_below(rng, n_real), faults: vec![] }
                    }
                }
                _ => {
                    if n_scripted > 0 { Ev::ScriptedSign(rnd::usize_below(rng, n_scripted)) } else { Ev::AggTick }
                }
            };
            // signers stopped by the random part come back after a while
            for i in 0..n_real {
                if !run.signers[i].is_up() && !down_for_epoch[i] && rnd::chance(rng, 25, 100) {
                    run.apply(&Ev::SignerStart(i), mon).await?;
                }
            }
            if run.agg_down && rnd::chance(rng, 20, 100) {
                run.apply(&Ev::AggDown(false), mon).await?;
            }
            run.apply(&ev, mon).await?;
        }
        // ---- quiet end of the epoch: everybody that is up works undisturbed
        let quiet_end = honest || rnd::chance(rng, 95, 100);
        if quiet_end {
            if run.agg_down {
                run.apply(&Ev::AggDown(false), mon).await?;
            }
            for i in 0..n_real {
                if !run.signers[i].is_up() && !down_for_epoch[i] {
                    run.apply(&Ev::SignerStart(i), mon).await?;
                }
            }
            let long = honest || rnd::chance(rng, 45, 100);
            let max_rounds = if long { 11 } else { 8 };
            for round in 0..max_rounds {
                run.apply(&Ev::AggTick, mon).await?;
                for i in 0..n_real {
                    if run.signers[i].is_up() {
                        let faults = if lost_registration && epoch_i == 2 && i == 1 { vec![FaultSpec { on: Some(ReqKind::RegisterSigner), kind: "drop", n: 3 }] } else { vec![] };
                        run.apply(&Ev::SignerTick { i, faults }, mon).await?;
                    }
                }
                for j in 0..n_scripted {
                    if scripted_registers[j] {
                        run.apply(&Ev::ScriptedRegister(j), mon).await?;
                    }
                    run.apply(&Ev::ScriptedSign(j), mon).await?;
                }
                if round == 3 && rnd::chance(rng, 1, 2) {
                    run.apply(&Ev::NewImmutable, mon).await?;
                }
                if scripted_node_lag && round == 1 && (0..n_real).any(|i| run.signers[i].lag_ticks_left > 0) {
                    run.apply(&Ev::NewImmutable, mon).await?;
                }
                if !long && round >= 3 && run.epoch_has_certificate() {
                    break;
                }
            }
        }
        if run.epoch_has_certificate() {
            mon.count("epochs_with_a_certificate");
        } else {
            mon.count("epochs_without_a_certificate");
        }
        let st = run.agg.sim.state();
        if (st.starts_with("blocked") && st != "blocked-genesis-epoch") || (st == "idle" && quiet_end) {
            mon.count(&format!("history_ended_early:aggregator_{st}"));
            dead = true;
            break;
        }
        lag_opened = None;
        if epoch_i + 1 < n_epochs {
            let restake = scripted_node_lag || (!honest && rnd::chance(rng, 1, 2));
            // ---- node lag: one signer's own Cardano node stays at the old epoch for a few of its ticks
            let mut lag = vec![];
            if scripted_node_lag {
                if epoch_i + 1 == 2 || epoch_i + 1 == 4 {
                    lag.push((1usize, 3u32));
                    lag_opened = Some((1, true));
                }
            } else if lag_history && rnd::chance(rng, 45, 100) {
                let i = rnd::usize_below(rng, n_real);
                lag.push((i, 1 + rnd::below(rng, 4) as u32));
                lag_opened = Some((i, rnd::chance(rng, 1, 2)));
            }
            run.apply(&Ev::EpochUp { restake, lag }, mon).await?;
        }
    }
    let _ = dead;
    // ---- end: every certificate sealed from these signatures verifies (C14's M1 as a by-product)
    tokio::time::sleep(std::time::Duration::from_millis(30)).await;
    verify_certificates(&mut run, mon).await?;
    run.summarize(mon);
    if debug {
        for e in &run.log {
            eprintln!("{e}");
        }
    }
    if mon.wants_sample() {
        mon.sample(json!({
            "history": hid,
            "real_signers": n_real,
            "scripted_signers": n_scripted,
            "epochs": run.chain_epoch - run.start_epoch + 1,
            "steps": run.step,
            "certificates": run.snap.certificates.len(),
            "aggregator_restarts_with_changed_parameters": run.parameter_changes.iter().map(|(e, st, p)| json!({"chain_epoch": e, "step": st, "k": p.k, "m": p.m, "phi_f": p.phi_f})).collect::<Vec<_>>(),
            "registration_parameters_announced_by_the_aggregator": run.model.announced.iter().map(|(e, p)| json!([e, p.k, p.m, p.phi_f])).collect::<Vec<_>>(),
            "node_lag_windows": run.lag_windows,
            "prefix": run.log.iter().take(14).collect::<Vec<_>>(),
        }));
    }
    run.agg.sim.builder.drop_sqlite_connections().await;
    Ok(())
}

async fn verify_certificates(run: &mut Run, mon: &mut Monitor) -> anyhow::Result<()> {
    let snap = mon_agg::sim::snapshot(&run.agg.sim.db_path())?;
    let ids: Vec<String> = snap.certificates.iter().map(|r| r["certificate_id"].as_str().unwrap_or("").to_string()).collect();
    let mut served: BTreeMap<String, Certificate> = BTreeMap::new();
    for id in &ids {
        if let Ok(Some(m)) = run.agg.sim.deps.message_service.get_certificate_message(id).await {
            if let Ok(c) = Certificate::try_from(m) {
                served.insert(id.clone(), c);
            }
        }
    }
    let retriever = Arc::new(TableRetriever { certs: served.clone() });
    let verifier = MithrilCertificateVerifier::new(mon_agg::sim::discard_logger(), retriever, Arc::new(genesis_verifier()));
    for id in &ids {
        let Some(c) = served.get(id) else { continue };
        mon.eval();
        match verifier.verify_certificate(c).await {
            Ok(_) => mon.count("certificates_verified_with_public_verifier"),
            Err(e) => mon.violation(
                "C20 certificate sealed from the signers' signatures does not verify",
                &format!("certificate {id} (epoch {}): {e:#}", c.epoch).chars().take(400).collect::<String>(),
                json!({"history": run.hid, "certificate_id": id, "schedule": run.schedule}),
            ),
        }
    }
    run.snap = snap;
    Ok(())
}
