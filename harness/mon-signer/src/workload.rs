//! Seeded random histories for C20.
use crate::front::ReqKind;
use crate::hist::{Ev, FaultSpec, Run};
use mithril_common::certificate_chain::{CertificateVerifier, MithrilCertificateVerifier};
use mithril_common::entities::{Certificate, SignedEntityTypeDiscriminants};
use mon_agg::hist::{genesis_verifier, TableRetriever};
use rand_chacha::ChaCha20Rng;
use serde_json::json;
use std::collections::BTreeMap;
use std::path::PathBuf;
use std::sync::Arc;
use vcore::rnd;
use vcore::Monitor;

pub const RULE: &str = "seeded random histories over 4-8 consecutive epochs of 1-3 REAL signers (StateMachine + SignerRunner + real services over file-backed sqlite, real KesSignerStandard, real AggregatorHttpClient and HttpMithrilNetworkConfigurationProvider, production signature-publisher stack with 1-3 attempts; sources of /repo/mithril-signer compiled through signer-shim because mithril-signer and mithril-aggregator each define a #[global_allocator]) plus 0-2 scripted honest co-signers, against the REAL aggregator of mon-agg's Sim in the same process (shared fake chain observer / immutable observer / digester), through a loopback HTTP front before the aggregator's real warp router. Events: aggregator ticks, signer ticks, epoch changes (with or without a new stake distribution), new immutable files, new blocks (CardanoTransactions enabled in half of the histories), signer restarts / stops (whole registration windows included) / starts on their own files, aggregator restarts (registration round not yet open until its next tick) and outages, faults on individual requests (dropped request, delivered-but-reply-lost, genuine epoch-settings reply of an earlier epoch served again, genuine 'registration round not yet opened' reply served again). Oracle over the boundary log: E1 at most one acknowledged publication and one sigma per (signer, signed entity type, beacon), byte-identical re-sends counted; a failed publication is sent again while the beacon is current; E2 every sigma verifies with mithril-stm under the key THIS signer registered (as logged: last acknowledged registration sent during epoch E-2) in the signer set / stakes computed from the logged registrations, and the real aggregator accepts it (201/202; 410 = late; any other reply to a well-formed signature while the aggregator is at epoch E or E-1 is a violation; a buffered signature must be taken over when the aggregator opens that very message); E3 signatures only in ReadyToSign of the current epoch and with an eligible acknowledged registration; E4 after 8 consecutive undisturbed ticks of an epoch (aggregator reachable, working, same epoch) a signer has registered for the round of the epoch and, if it holds the key in force, has signed (also after a restart); all certificates the aggregator sealed verify with the public verifier. Non-trivial = a signature of a real signer accepted (201/202) by the aggregator in a signer history that already contained a fault / restart / stop; distinct by (history, signer, beacon). evaluations = oracle judgements (registrations, signature publications, retry / hand-over / progress checks, certificates, histories).";

pub const ASSUMPTIONS: &[&str] = &[
    "doubles for the Cardano node only (chain observer, immutable file observer, digester shared by both sides; dumb block scanner)",
    "signed entity types enabled: MithrilStakeDistribution, CardanoStakeDistribution, CardanoDatabase, and CardanoTransactions in half of the histories (dumb block scanners fed with the same blocks on every node)",
    "restarts happen between ticks (clean stop); ticks of the different nodes do not overlap in time",
    "faults are injected per HTTP request at the front: 503 without delivery, 504 after delivery, replay of a genuine earlier epoch-settings reply",
    "the signers' key generation uses the operating system's randomness (code under test); the schedule is seeded",
];

fn fault_specs(rng: &mut ChaCha20Rng) -> Vec<FaultSpec> {
    let kinds = [ReqKind::Settings, ReqKind::ProtoConfig, ReqKind::RegisterSigner, ReqKind::RegisterSignature];
    let mut v = vec![];
    let n = 1 + rnd::usize_below(rng, 2);
    for _ in 0..n {
        let f = match rnd::below(rng, 13) {
            0 => FaultSpec { on: None, kind: "drop", n: 1 + rnd::below(rng, 3) as u32 },
            1..=3 => FaultSpec { on: Some(*rnd::pick(rng, &kinds)), kind: "drop", n: 1 + rnd::below(rng, 2) as u32 },
            4..=5 => FaultSpec { on: Some(ReqKind::RegisterSigner), kind: "lose-reply", n: 1 },
            6..=8 => FaultSpec { on: Some(ReqKind::RegisterSignature), kind: "lose-reply", n: 1 + rnd::below(rng, 3) as u32 },
            9 => FaultSpec { on: None, kind: "lose-reply", n: 1 + rnd::below(rng, 2) as u32 },
            10 => FaultSpec { on: Some(ReqKind::RegisterSigner), kind: "round-not-open", n: 1 + rnd::below(rng, 2) as u32 },
            _ => FaultSpec { on: Some(ReqKind::Settings), kind: "stale-settings", n: 1 },
        };
        v.push(f);
    }
    v
}

/// `scenario`: None = random history; "honest" = no fault at all; "missed-round" = no fault except that
/// real signer 1 (of 2, plus one scripted co-signer) is down during the whole third epoch;
/// "lost-registration" = no fault except that its registration requests are dropped during that epoch
pub async fn one_history(mon: &mut Monitor, rng: &mut ChaCha20Rng, dir: PathBuf, hid: &str, scenario: Option<&str>) -> anyhow::Result<()> {
    let honest = scenario.is_some();
    let missed_round = scenario == Some("missed-round");
    // "lost-registration": no fault except that every registration request of real signer 1 is dropped
    // during the whole third epoch
    let lost_registration = scenario == Some("lost-registration");
    let mut types = vec![SignedEntityTypeDiscriminants::CardanoStakeDistribution, SignedEntityTypeDiscriminants::CardanoDatabase];
    let with_transactions = !honest && rnd::chance(rng, 1, 2);
    if with_transactions {
        types.insert(1, SignedEntityTypeDiscriminants::CardanoTransactions);
        mon.count("histories_with_cardano_transactions");
    }
    let mut run = Run::start(dir, rng, hid, types, if missed_round || lost_registration { Some((2, 1)) } else { None }).await?;
    let n_epochs = 4 + rnd::below(rng, 5);
    let n_real = run.n_real();
    let n_scripted = run.scripted.len();
    mon.count(&format!("histories_with_{n_real}_real_signers"));
    mon.count(&format!("histories_with_{n_scripted}_scripted_signers"));
    if missed_round {
        mon.count("histories_scripted:one_signer_down_for_one_whole_epoch");
    } else if lost_registration {
        mon.count("histories_scripted:registrations_of_one_signer_dropped_for_one_whole_epoch");
    } else if honest {
        mon.count("histories_without_any_fault");
    }
    let debug = std::env::var("VERIF_DEBUG").is_ok();
    let mut dead = false;
    for epoch_i in 0..n_epochs {
        // ---- who is kept down during this whole epoch (misses the registration round)
        let mut down_for_epoch = vec![false; n_real];
        if missed_round && epoch_i == 2 {
            down_for_epoch[1] = true;
        }
        if !honest && epoch_i > 0 {
            for i in 0..n_real {
                let others = n_real + n_scripted > 1;
                if others && rnd::chance(rng, 10, 100) {
                    down_for_epoch[i] = true;
                }
            }
        }
        for i in 0..n_real {
            if down_for_epoch[i] && run.signers[i].is_up() {
                run.apply(&Ev::SignerStop(i), mon).await?;
            } else if !down_for_epoch[i] && !run.signers[i].is_up() {
                run.apply(&Ev::SignerStart(i), mon).await?;
            }
        }
        let scripted_registers: Vec<bool> = (0..n_scripted).map(|_| honest || rnd::chance(rng, 88, 100)).collect();
        // ---- the aggregator usually notices the epoch promptly
        if honest || rnd::chance(rng, 6, 10) {
            run.apply(&Ev::AggTick, mon).await?;
            run.apply(&Ev::AggTick, mon).await?;
        }
        // ---- random part
        let len = if honest { 0 } else { 8 + rnd::usize_below(rng, 22) };
        for _ in 0..len {
            let roll = rnd::below(rng, 100);
            let ev = match roll {
                0..=21 => Ev::AggTick,
                22..=61 => {
                    let i = rnd::usize_below(rng, n_real);
                    let faults = if rnd::chance(rng, 30, 100) { fault_specs(rng) } else { vec![] };
                    Ev::SignerTick { i, faults }
                }
                62..=67 => {
                    if with_transactions && rnd::chance(rng, 1, 2) { Ev::Blocks(10 + rnd::below(rng, 40)) } else { Ev::NewImmutable }
                }
                68..=72 => {
                    let i = rnd::usize_below(rng, n_real);
                    if run.signers[i].is_up() { Ev::SignerRestart(i) } else { Ev::AggTick }
                }
                73..=75 => {
                    let i = rnd::usize_below(rng, n_real);
                    if run.signers[i].is_up() { Ev::SignerStop(i) } else if !down_for_epoch[i] { Ev::SignerStart(i) } else { Ev::AggTick }
                }
                76..=77 => Ev::AggRestart,
                78..=81 => {
                    if run.agg_down { Ev::AggDown(false) } else if rnd::chance(rng, 1, 2) { Ev::AggDown(true) } else { Ev::AggTick }
                }
                82..=90 => {
                    if n_scripted > 0 {
                        let j = rnd::usize_below(rng, n_scripted);
                        if scripted_registers[j] { Ev::ScriptedRegister(j) } else { Ev::AggTick }
                    } else {
                        Ev::SignerTick { i: rnd::usize_below(rng, n_real), faults: vec![] }
                    }
                }
                _ => {
                    if n_scripted > 0 { Ev::ScriptedSign(rnd::usize_below(rng, n_scripted)) } else { Ev::AggTick }
                }
            };
            // signers stopped by the random part come back after a while
            for i in 0..n_real {
                if !run.signers[i].is_up() && !down_for_epoch[i] && rnd::chance(rng, 25, 100) {
                    run.apply(&Ev::SignerStart(i), mon).await?;
                }
            }
            if run.agg_down && rnd::chance(rng, 20, 100) {
                run.apply(&Ev::AggDown(false), mon).await?;
            }
            run.apply(&ev, mon).await?;
        }
        // ---- quiet end of the epoch: everybody that is up works undisturbed
        let quiet_end = honest || rnd::chance(rng, 95, 100);
        if quiet_end {
            if run.agg_down {
                run.apply(&Ev::AggDown(false), mon).await?;
            }
            for i in 0..n_real {
                if !run.signers[i].is_up() && !down_for_epoch[i] {
                    run.apply(&Ev::SignerStart(i), mon).await?;
                }
            }
            let long = honest || rnd::chance(rng, 45, 100);
            let max_rounds = if long { 11 } else { 8 };
            for round in 0..max_rounds {
                run.apply(&Ev::AggTick, mon).await?;
                for i in 0..n_real {
                    if run.signers[i].is_up() {
                        let faults = if lost_registration && epoch_i == 2 && i == 1 { vec![FaultSpec { on: Some(ReqKind::RegisterSigner), kind: "drop", n: 3 }] } else { vec![] };
                        run.apply(&Ev::SignerTick { i, faults }, mon).await?;
                    }
                }
                for j in 0..n_scripted {
                    if scripted_registers[j] {
                        run.apply(&Ev::ScriptedRegister(j), mon).await?;
                    }
                    run.apply(&Ev::ScriptedSign(j), mon).await?;
                }
                if round == 3 && rnd::chance(rng, 1, 2) {
                    run.apply(&Ev::NewImmutable, mon).await?;
                }
                if !long && round >= 3 && run.epoch_has_certificate() {
                    break;
                }
            }
        }
        if run.epoch_has_certificate() {
            mon.count("epochs_with_a_certificate");
        } else {
            mon.count("epochs_without_a_certificate");
        }
        let st = run.agg.sim.state();
        if (st.starts_with("blocked") && st != "blocked-genesis-epoch") || (st == "idle" && quiet_end) {
            mon.count(&format!("history_ended_early:aggregator_{st}"));
            dead = true;
            break;
        }
        if epoch_i + 1 < n_epochs {
            let restake = !honest && rnd::chance(rng, 1, 2);
            run.apply(&Ev::EpochUp { restake }, mon).await?;
        }
    }
    let _ = dead;
    // ---- end: every certificate sealed from these signatures verifies (C14's M1 as a by-product)
    tokio::time::sleep(std::time::Duration::from_millis(30)).await;
    verify_certificates(&mut run, mon).await?;
    run.summarize(mon);
    if debug {
        for e in &run.log {
            eprintln!("{e}");
        }
    }
    if mon.wants_sample() {
        mon.sample(json!({
            "history": hid,
            "real_signers": n_real,
            "scripted_signers": n_scripted,
            "epochs": run.chain_epoch - run.start_epoch + 1,
            "steps": run.step,
            "certificates": run.snap.certificates.len(),
            "prefix": run.log.iter().take(14).collect::<Vec<_>>(),
        }));
    }
    run.agg.sim.builder.drop_sqlite_connections().await;
    Ok(())
}

async fn verify_certificates(run: &mut Run, mon: &mut Monitor) -> anyhow::Result<()> {
    let snap = mon_agg::sim::snapshot(&run.agg.sim.db_path())?;
    let ids: Vec<String> = snap.certificates.iter().map(|r| r["certificate_id"].as_str().unwrap_or("").to_string()).collect();
    let mut served: BTreeMap<String, Certificate> = BTreeMap::new();
    for id in &ids {
        if let Ok(Some(m)) = run.agg.sim.deps.message_service.get_certificate_message(id).await {
            if let Ok(c) = Certificate::try_from(m) {
                served.insert(id.clone(), c);
            }
        }
    }
    let retriever = Arc::new(TableRetriever { certs: served.clone() });
    let verifier = MithrilCertificateVerifier::new(mon_agg::sim::discard_logger(), retriever, Arc::new(genesis_verifier()));
    for id in &ids {
        let Some(c) = served.get(id) else { continue };
        mon.eval();
        match verifier.verify_certificate(c).await {
            Ok(_) => mon.count("certificates_verified_with_public_verifier"),
            Err(e) => mon.violation(
                "C20 certificate sealed from the signers' signatures does not verify",
                &format!("certificate {id} (epoch {}): {e:#}", c.epoch).chars().take(400).collect::<String>(),
                json!({"history": run.hid, "certificate_id": id, "schedule": run.schedule}),
            ),
        }
    }
    run.snap = snap;
    Ok(())
}
