//! C01 — multi-signature soundness.
//! Monitor: `AggregateSignature::verify(A) = Ok  =>  Ref(A)` and
//! `batch_verify(As) = Ok  =>  for all i: Ref(A_i)`, with `Ref` the independent acceptance rule of
//! refagg.rs; candidates are honest aggregates and structure-aware mutations of their wire value,
//! pushed through the JSON, CBOR and legacy-bytes forms.
use crate::refagg::{self, RefVerdict};
use crate::world::{self, World, D};
use crate::{g1, legacy};
use mithril_stm::*;
use rand_chacha::ChaCha20Rng;
use rand_core::RngCore;
use serde_json::{json, Value};
use vcore::rnd;
use vcore::{catch, Monitor};

fn to_bytes_json(b: &[u8]) -> Value {
    Value::Array(b.iter().map(|x| json!(*x)).collect())
}

pub struct Candidate {
    pub mutator: String,
    pub value: Value,
}

fn sig_count(j: &Value) -> usize {
    j["signatures"].as_array().map(|a| a.len()).unwrap_or(0)
}
fn idx_list(j: &Value, s: usize) -> Vec<u64> {
    j["signatures"][s][0]["indexes"].as_array().map(|a| a.iter().filter_map(|x| x.as_u64()).collect()).unwrap_or_default()
}
fn set_idx(j: &mut Value, s: usize, l: &[u64]) {
    j["signatures"][s][0]["indexes"] = json!(l);
}

/// all structural mutations of one honest aggregate value
pub fn mutations(j: &Value, w: &World, adv: &World, msg: &[u8], rng: &mut ChaCha20Rng) -> Vec<Candidate> {
    let mut out = vec![];
    let m = w.params.m;
    let n = sig_count(j);
    let msgp = w.msgp(msg);
    let mut push = |name: &str, v: Value| out.push(Candidate { mutator: name.to_string(), value: v });
    push("identity", j.clone());
    if n == 0 {
        return out;
    }
    for s in 0..n {
        let idx = idx_list(j, s);
        // --- index list edits
        if idx.len() > 1 {
            let mut v = j.clone();
            let mut l = idx.clone();
            l.remove(rnd::usize_below(rng, l.len()));
            set_idx(&mut v, s, &l);
            push("idx_drop_one", v);
        }
        {
            let mut v = j.clone();
            set_idx(&mut v, s, &[]);
            push("idx_clear", v);
        }
        for (name, val) in [
            ("idx_add_m_minus_1", m.wrapping_sub(1)),
            ("idx_add_m", m),
            ("idx_add_m_plus_1", m.wrapping_add(1)),
            ("idx_add_u64max", u64::MAX),
            ("idx_add_random_in_range", rnd::below(rng, m.max(1))),
            ("idx_add_zero", 0),
        ] {
            let mut v = j.clone();
            let mut l = idx.clone();
            l.push(val);
            set_idx(&mut v, s, &l);
            push(name, v);
            // replacing instead of adding keeps the count
            if !idx.is_empty() {
                let mut v = j.clone();
                let mut l = idx.clone();
                let p = rnd::usize_below(rng, l.len());
                l[p] = val;
                set_idx(&mut v, s, &l);
                push(&format!("{name}_replace"), v);
            }
        }
        if !idx.is_empty() {
            let mut v = j.clone();
            let mut l = idx.clone();
            l.push(*rnd::pick(rng, &idx));
            set_idx(&mut v, s, &l);
            push("idx_dup_within_sig", v);
        }
        {
            // every index in [0,m] (all of them, incl. m) - the greedy "claim everything"
            if m <= 64 {
                let mut v = j.clone();
                let l: Vec<u64> = (0..=m).collect();
                set_idx(&mut v, s, &l);
                push("idx_claim_all_0_to_m", v);
                let mut v = j.clone();
                let l: Vec<u64> = (0..m).collect();
                set_idx(&mut v, s, &l);
                push("idx_claim_all_below_m", v);
            }
        }
        {
            // indices really won by this sigma at the boundary m (what an attacker would pick):
            // keep the honest list and add m only if the draw at m wins
            let sigma = refagg::bytes_of(&j["signatures"][s][0]["sigma"]);
            let stake = j["signatures"][s][1][1].as_u64().unwrap_or(0);
            let ev = refagg::draw(&msgp, m, &sigma);
            if crate::reflot::won_f64(w.params.phi_f, &ev, stake, w.total_stake) == Some(true) {
                let mut v = j.clone();
                let mut l = idx.clone();
                l.push(m);
                set_idx(&mut v, s, &l);
                push("idx_add_m_when_draw_at_m_wins", v);
                // and with m replacing one honest index so the count stays the same
                if !idx.is_empty() {
                    let mut v = j.clone();
                    let mut l = idx.clone();
                    l[0] = m;
                    set_idx(&mut v, s, &l);
                    push("idx_replace_by_m_when_draw_at_m_wins", v);
                }
            }
        }
        // cross-signature collisions
        for t in 0..n {
            if t != s {
                let other = idx_list(j, t);
                if let Some(&x) = other.first() {
                    let mut v = j.clone();
                    let mut l = idx.clone();
                    l.push(x);
                    set_idx(&mut v, s, &l);
                    push("idx_copy_from_other_sig", v);
                    // move
                    let mut v = j.clone();
                    let mut l = idx.clone();
                    l.push(x);
                    set_idx(&mut v, s, &l);
                    let mut o = other.clone();
                    o.remove(0);
                    set_idx(&mut v, t, &o);
                    push("idx_move_between_sigs", v);
                }
                // one-way sigma copy: entry t carries entry s's sigma and claims exactly the indices
                // THAT sigma wins with t's (registered) stake and that nobody else lists. Both slots
                // are genuinely registered and the path is untouched; only the pairing of sigma_s
                // with t's key is false (a verifier that treats equal sigmas as repeats of one
                // signature never checks it).
                {
                    let sigma_s = refagg::bytes_of(&j["signatures"][s][0]["sigma"]);
                    let stake_t = j["signatures"][t][1][1].as_u64().unwrap_or(0);
                    let won: Vec<u64> = (0..m)
                        .filter(|&i| {
                            let ev = refagg::draw(&msgp, i, &sigma_s);
                            crate::reflot::won_f64(w.params.phi_f, &ev, stake_t, w.total_stake) == Some(true)
                        })
                        .filter(|i| (0..n).all(|u| u == t || !idx_list(j, u).contains(i)))
                        .collect();
                    if !won.is_empty() {
                        let mut v = j.clone();
                        v["signatures"][t][0]["sigma"] = j["signatures"][s][0]["sigma"].clone();
                        set_idx(&mut v, t, &won);
                        push("sigma_copied_from_other_entry_with_the_indices_it_wins_there", v);
                    }
                }
                // sigma swap
                let mut v = j.clone();
                let a = j["signatures"][s][0]["sigma"].clone();
                let b = j["signatures"][t][0]["sigma"].clone();
                v["signatures"][s][0]["sigma"] = b;
                v["signatures"][t][0]["sigma"] = a;
                push("sigma_swap", v);
                // key := other party's key
                let mut v = j.clone();
                v["signatures"][s][1][0] = j["signatures"][t][1][0].clone();
                push("key_of_other_party", v);
                // whole reg party := other party
                let mut v = j.clone();
                v["signatures"][s][1] = j["signatures"][t][1].clone();
                push("regparty_of_other_party", v);
            }
        }
        // --- signer slot
        for (name, val) in [
            ("slot_plus_1", j["signatures"][s][0]["signer_index"].as_u64().unwrap_or(0).wrapping_add(1)),
            ("slot_zero", 0),
            ("slot_out_of_range", w.nr_leaves),
            ("slot_u64max", u64::MAX),
        ] {
            let mut v = j.clone();
            v["signatures"][s][0]["signer_index"] = json!(val);
            push(name, v);
        }
        // --- claimed stake
        let stake = j["signatures"][s][1][1].as_u64().unwrap_or(0);
        for (name, val) in [
            ("stake_total", w.total_stake),
            ("stake_plus_1", stake.saturating_add(1)),
            ("stake_minus_1", stake.saturating_sub(1)),
            ("stake_zero", 0),
            // NB: claimed stakes far above the total make the lottery evaluation of the verifier run its
            // 1000-iteration bigint series (13-60 s per index measured) - out of scope here, so capped at 2x.
            ("stake_2x_total", w.total_stake.saturating_mul(2)),
            ("stake_double", stake.saturating_mul(2).min(w.total_stake.saturating_mul(2))),
        ] {
            let mut v = j.clone();
            v["signatures"][s][1][1] = json!(val);
            push(name, v);
        }
        // --- key := foreign (adversary) key, with and without adversary sigma
        {
            let a = &adv.parties[rnd::usize_below(rng, adv.parties.len())];
            let mut v = j.clone();
            v["signatures"][s][1][0] = to_bytes_json(&a.vk);
            push("key_foreign", v.clone());
            // adversary signs msg||root_W itself with its own key and claims the whole stake
            if let Some(sig) = g1::sign(&a.sk, &msgp) {
                v["signatures"][s][0]["sigma"] = to_bytes_json(&sig);
                push("entry_foreign_key_own_sigma", v.clone());
                v["signatures"][s][1][1] = json!(w.total_stake);
                // claim exactly the indices this sigma wins with the whole stake
                let won: Vec<u64> = (0..m)
                    .filter(|&i| {
                        let ev = refagg::draw(&msgp, i, &sig);
                        crate::reflot::won_f64(w.params.phi_f, &ev, w.total_stake, w.total_stake) == Some(true)
                    })
                    .filter(|i| (0..n).all(|t| t == s || !idx_list(j, t).contains(i)))
                    .collect();
                set_idx(&mut v, s, &won);
                push("entry_foreign_key_own_sigma_total_stake_won_indices", v);
            }
        }
        // --- registered key, true sigma, but inflated stake with the indices that stake would win
        {
            let sigma = refagg::bytes_of(&j["signatures"][s][0]["sigma"]);
            let won: Vec<u64> = (0..m)
                .filter(|&i| {
                    let ev = refagg::draw(&msgp, i, &sigma);
                    crate::reflot::won_f64(w.params.phi_f, &ev, w.total_stake, w.total_stake) == Some(true)
                })
                .filter(|i| (0..n).all(|t| t == s || !idx_list(j, t).contains(i)))
                .collect();
            let mut v = j.clone();
            v["signatures"][s][1][1] = json!(w.total_stake);
            set_idx(&mut v, s, &won);
            push("stake_total_with_indices_won_at_total", v);
        }
        // --- sigma edits
        {
            let sigma = refagg::bytes_of(&j["signatures"][s][0]["sigma"]);
            let mut b = sigma.clone();
            let p = rnd::usize_below(rng, b.len().max(1));
            if !b.is_empty() {
                b[p] ^= 1 << rnd::below(rng, 8);
            }
            let mut v = j.clone();
            v["signatures"][s][0]["sigma"] = to_bytes_json(&b);
            push("sigma_bitflip", v);
            // sigma for another message by the same (registered) key
            let vkb = refagg::bytes_of(&j["signatures"][s][1][0]);
            if let Some(p) = w.parties.iter().find(|p| p.vk[..] == vkb[..]) {
                let mut other = msg.to_vec();
                other.push(0x42);
                if let Some(sig) = g1::sign(&p.sk, &w.msgp(&other)) {
                    let mut v = j.clone();
                    v["signatures"][s][0]["sigma"] = to_bytes_json(&sig);
                    push("sigma_for_other_message", v);
                }
                // sigma over msg without the commitment suffix
                if let Some(sig) = g1::sign(&p.sk, msg) {
                    let mut v = j.clone();
                    v["signatures"][s][0]["sigma"] = to_bytes_json(&sig);
                    push("sigma_without_root_binding", v);
                }
            }
            // sigma + random point (invalid but on-curve)
            let delta = g1::random_point(&rnd::bytes(rng, 16));
            if let Some(sig) = g1::add(&sigma, &delta) {
                let mut v = j.clone();
                v["signatures"][s][0]["sigma"] = to_bytes_json(&sig);
                push("sigma_plus_random_point", v);
            }
            // sigma + T with T OUTSIDE the prime-order subgroup: the pairing check cannot see T, the
            // bytes (hence the lottery draws) change. A verifier that does not insist on sigma in G1
            // lets the signer grind for indices; claimed: the indices the new bytes win
            for g in 0..3u8 {
                let Some(t) = g1::small_order_point(&[&sigma[..], &[g]].concat()) else { continue };
                let Some(sig2) = g1::add(&sigma, &t) else { continue };
                let stake = j["signatures"][s][1][1].as_u64().unwrap_or(0);
                let won: Vec<u64> = (0..m)
                    .filter(|&i| {
                        let ev = refagg::draw(&msgp, i, &sig2);
                        crate::reflot::won_f64(w.params.phi_f, &ev, stake, w.total_stake) == Some(true)
                    })
                    .filter(|i| (0..n).all(|t| t == s || !idx_list(j, t).contains(i)))
                    .collect();
                let mut v = j.clone();
                v["signatures"][s][0]["sigma"] = to_bytes_json(&sig2);
                push("sigma_plus_point_outside_the_subgroup_honest_indices", v.clone());
                if !won.is_empty() {
                    set_idx(&mut v, s, &won);
                    push("sigma_plus_point_outside_the_subgroup_with_the_indices_it_wins", v);
                }
            }
            // truncated / extended byte array
            let mut v = j.clone();
            v["signatures"][s][0]["sigma"] = to_bytes_json(&sigma[..sigma.len().saturating_sub(1)]);
            push("sigma_truncated", v);
        }
        // --- an extra entry APPENDED behind the honest ones, batch path untouched: more leaves than
        // path indices (a path check that only walks the indices never looks at it)
        if s == 0 {
            let a = &adv.parties[rnd::usize_below(rng, adv.parties.len())];
            if let Some(sig) = g1::sign(&a.sk, &msgp) {
                for (tag, slot) in [("slot_past_the_last", w.nr_leaves), ("slot_of_the_last_entry_plus_1", j["signatures"][n - 1][0]["signer_index"].as_u64().unwrap_or(0).wrapping_add(1)), ("slot_zero", 0)] {
                    let won: Vec<u64> = (0..m)
                        .filter(|&i| {
                            let ev = refagg::draw(&msgp, i, &sig);
                            crate::reflot::won_f64(w.params.phi_f, &ev, w.total_stake, w.total_stake) == Some(true)
                        })
                        .filter(|i| (0..n).all(|t| !idx_list(j, t).contains(i)))
                        .collect();
                    let mut e = j["signatures"][0].clone();
                    e[0]["sigma"] = to_bytes_json(&sig);
                    e[0]["signer_index"] = json!(slot);
                    e[1][0] = to_bytes_json(&a.vk);
                    e[1][1] = json!(w.total_stake);
                    let mut v = j.clone();
                    v["signatures"].as_array_mut().unwrap().push(e);
                    let last = n;
                    set_idx(&mut v, last, &won);
                    push(&format!("entry_appended_foreign_key_own_sigma_path_untouched:{tag}"), v);
                }
            }
        }
        // --- drop / duplicate the entry
        {
            let mut v = j.clone();
            v["signatures"].as_array_mut().unwrap().remove(s);
            push("entry_drop", v);
            let mut v = j.clone();
            let e = j["signatures"][s].clone();
            v["signatures"].as_array_mut().unwrap().push(e);
            push("entry_duplicate", v);
        }
    }
    // --- within-aggregate compensation: sigma_a + P, sigma_b - P
    if n >= 2 {
        let a = refagg::bytes_of(&j["signatures"][0][0]["sigma"]);
        let b = refagg::bytes_of(&j["signatures"][1][0]["sigma"]);
        let delta = g1::random_point(&rnd::bytes(rng, 16));
        if let (Some(a2), Some(nd)) = (g1::add(&a, &delta), g1::neg(&delta)) {
            if let Some(b2) = g1::add(&b, &nd) {
                let mut v = j.clone();
                v["signatures"][0][0]["sigma"] = to_bytes_json(&a2);
                v["signatures"][1][0]["sigma"] = to_bytes_json(&b2);
                push("sigma_pair_compensation_within_aggregate", v);
            }
        }
        // the same with the index lists the NEW bytes win (each altered sigma is invalid alone, the
        // sum of the two is unchanged; a verifier whose aggregation does not bind every sigma to its
        // own key and position accepts them): a few points P, every pair of entries up to 3
        for (a_i, b_i) in [(0usize, 1usize), (1, 0), (0, n - 1)] {
            if a_i == b_i || b_i >= n {
                continue;
            }
            let sa = refagg::bytes_of(&j["signatures"][a_i][0]["sigma"]);
            let sb = refagg::bytes_of(&j["signatures"][b_i][0]["sigma"]);
            let stake_a = j["signatures"][a_i][1][1].as_u64().unwrap_or(0);
            let stake_b = j["signatures"][b_i][1][1].as_u64().unwrap_or(0);
            for g in 0..6u8 {
                let delta = g1::random_point(&[&rnd::bytes(rng, 8)[..], &[g]].concat());
                let (Some(a2), Some(nd)) = (g1::add(&sa, &delta), g1::neg(&delta)) else { continue };
                let Some(b2) = g1::add(&sb, &nd) else { continue };
                let others: Vec<u64> = (0..n).filter(|t| *t != a_i && *t != b_i).flat_map(|t| idx_list(j, t)).collect();
                let won = |sig: &[u8; 48], stake: u64| -> Vec<u64> {
                    (0..m)
                        .filter(|&i| {
                            let ev = refagg::draw(&msgp, i, sig);
                            crate::reflot::won_f64(w.params.phi_f, &ev, stake, w.total_stake) == Some(true)
                        })
                        .filter(|i| !others.contains(i))
                        .collect()
                };
                let wa = won(&a2, stake_a);
                let wb: Vec<u64> = won(&b2, stake_b).into_iter().filter(|i| !wa.contains(i)).collect();
                if wa.is_empty() || wb.is_empty() {
                    continue;
                }
                let mut v = j.clone();
                v["signatures"][a_i][0]["sigma"] = to_bytes_json(&a2);
                v["signatures"][b_i][0]["sigma"] = to_bytes_json(&b2);
                set_idx(&mut v, a_i, &wa);
                set_idx(&mut v, b_i, &wb);
                push("sigma_pair_compensation_within_aggregate_with_the_indices_the_new_bytes_win", v);
            }
        }
    }
    // --- batch path edits
    let values: Vec<Value> = j["batch_proof"]["values"].as_array().cloned().unwrap_or_default();
    let indices: Vec<u64> = j["batch_proof"]["indices"].as_array().map(|a| a.iter().filter_map(|x| x.as_u64()).collect()).unwrap_or_default();
    for p in 0..values.len() {
        let mut v = j.clone();
        v["batch_proof"]["values"].as_array_mut().unwrap().remove(p);
        push("path_value_delete", v);
        let mut v = j.clone();
        let dup = values[p].clone();
        v["batch_proof"]["values"].as_array_mut().unwrap().insert(p, dup);
        push("path_value_duplicate", v);
        let mut v = j.clone();
        let mut b = refagg::bytes_of(&values[p]);
        if !b.is_empty() {
            let q = rnd::usize_below(rng, b.len());
            b[q] ^= 0x80;
        }
        v["batch_proof"]["values"][p] = to_bytes_json(&b);
        push("path_value_bitflip", v);
        if p + 1 < values.len() {
            let mut v = j.clone();
            v["batch_proof"]["values"].as_array_mut().unwrap().swap(p, p + 1);
            push("path_value_swap", v);
        }
    }
    {
        let mut v = j.clone();
        v["batch_proof"]["values"].as_array_mut().unwrap().push(to_bytes_json(&[0u8; 32]));
        push("path_value_append_zero", v);
        let mut v = j.clone();
        v["batch_proof"]["values"] = json!([]);
        push("path_values_clear", v);
    }
    for p in 0..indices.len() {
        for (name, val) in [
            ("path_index_plus_1", indices[p].wrapping_add(1)),
            ("path_index_minus_1", indices[p].wrapping_sub(1)),
            ("path_index_nr_leaves", w.nr_leaves),
            ("path_index_padding_pos", w.nr_leaves.next_power_of_two().saturating_sub(1)),
            ("path_index_usize_max", u64::MAX),
            ("path_index_zero", 0),
        ] {
            let mut v = j.clone();
            v["batch_proof"]["indices"][p] = json!(val);
            push(name, v);
        }
        let mut v = j.clone();
        v["batch_proof"]["indices"].as_array_mut().unwrap().remove(p);
        push("path_index_delete", v);
        let mut v = j.clone();
        v["batch_proof"]["indices"].as_array_mut().unwrap().insert(p, json!(indices[p]));
        push("path_index_duplicate", v);
    }
    if indices.len() >= 2 {
        let mut v = j.clone();
        v["batch_proof"]["indices"].as_array_mut().unwrap().reverse();
        push("path_indices_reversed", v);
        let mut v = j.clone();
        v["signatures"].as_array_mut().unwrap().reverse();
        push("entries_reversed", v);
    }
    // --- forged extra slot hidden behind a duplicated batch-path index: the genuine entry keeps its
    // real siblings, a second entry with the same sigma/key claims the whole stake (and the indices
    // that stake would win); its "siblings" are junk placed where a second walk would consume them
    for s in 0..n {
        let sigma = refagg::bytes_of(&j["signatures"][s][0]["sigma"]);
        let won: Vec<u64> = (0..m)
            .filter(|&i| {
                let ev = refagg::draw(&msgp, i, &sigma);
                crate::reflot::won_f64(w.params.phi_f, &ev, w.total_stake, w.total_stake) == Some(true)
            })
            .filter(|i| (0..n).all(|t| !idx_list(j, t).contains(i)))
            .collect();
        if won.is_empty() || s >= indices.len() {
            continue;
        }
        let mut forged = j["signatures"][s].clone();
        forged[1][1] = json!(w.total_stake);
        forged[0]["indexes"] = json!(won);
        let junk = to_bytes_json(&rnd::bytes(rng, 32));
        let depth = values.len();
        let value_layouts: Vec<(&str, Vec<Value>)> = vec![
            ("interleave_after", values.iter().flat_map(|v| vec![v.clone(), junk.clone()]).collect()),
            ("interleave_before", values.iter().flat_map(|v| vec![junk.clone(), v.clone()]).collect()),
            ("append", values.iter().cloned().chain(std::iter::repeat(junk.clone()).take(depth.max(1))).collect()),
            ("prepend", std::iter::repeat(junk.clone()).take(depth.max(1)).chain(values.iter().cloned()).collect()),
            ("unchanged", values.clone()),
        ];
        for (lname, vals) in value_layouts {
            for forged_first in [false, true] {
                let mut v = j.clone();
                let pos = if forged_first { s } else { s + 1 };
                v["signatures"].as_array_mut().unwrap().insert(pos, forged.clone());
                v["batch_proof"]["indices"].as_array_mut().unwrap().insert(s, json!(indices[s]));
                v["batch_proof"]["values"] = Value::Array(vals.clone());
                push(&format!("forged_slot_behind_duplicated_path_index:{lname}:{}", if forged_first { "forged_first" } else { "forged_second" }), v);
            }
        }
    }
    // --- whole aggregate of the adversarial registration presented against W's key
    {
        let sigs = adv.sign_all(msg);
        if let Ok(a) = adv.aggregate(&sigs, msg) {
            push("aggregate_of_adversarial_registration", serde_json::to_value(&a).unwrap());
            // and its entries combined with W's batch proof
            let mut v = serde_json::to_value(&a).unwrap();
            v["batch_proof"] = j["batch_proof"].clone();
            push("adversarial_entries_with_honest_path", v);
        }
    }
    out
}

#[derive(Clone, Copy, PartialEq, Eq, Debug)]
pub enum Outcome {
    Accept,
    Reject,
    Panic,
    Undecodable,
}

fn verify_outcome(a: &AggregateSignature<D>, w: &World, msg: &[u8], mon: &mut Monitor) -> Outcome {
    match catch(|| w.verify(a, msg)) {
        Ok(Ok(())) => Outcome::Accept,
        Ok(Err(_)) => Outcome::Reject,
        Err(p) => {
            mon.count(&format!("verifier_panic@{}", vcore::panic_location(&p)));
            Outcome::Panic
        }
    }
}

/// Judge one candidate wire value through all three forms. Returns the JSON-form outcome and the
/// decoded aggregate (for batches).
pub fn judge(
    c: &Candidate,
    w: &World,
    msg: &[u8],
    world_desc: &Value,
    mon: &mut Monitor,
) -> (Outcome, Option<AggregateSignature<D>>, Option<bool>) {
    mon.eval();
    mon.count(&format!("mutator:{}", c.mutator));
    let decoded: Result<AggregateSignature<D>, _> = serde_json::from_value(c.value.clone());
    let Ok(agg) = decoded else {
        mon.count("undecodable_json");
        return (Outcome::Undecodable, None, None);
    };
    let view = serde_json::to_value(&agg).unwrap();
    let Some(ra) = refagg::parse(&view) else {
        mon.count("unparsable_view");
        return (Outcome::Undecodable, None, None);
    };
    let reference = refagg::reference(&ra, w, msg);
    let ref_ok = match &reference {
        RefVerdict::Accept => Some(true),
        RefVerdict::Reject(..) => Some(false),
        RefVerdict::Band => None,
    };
    let t0 = std::time::Instant::now();
    let o_json = verify_outcome(&agg, w, msg, mon);
    if t0.elapsed().as_secs_f64() > 1.0 {
        mon.count(&format!("slow_verify(>1s):{}", c.mutator));
        if std::env::var("VERIF_DEBUG").is_ok() {
            eprintln!("SLOW {:?} {} {}", t0.elapsed(), c.mutator, serde_json::to_string(&c.value["signatures"].as_array().unwrap().iter().map(|e| (e[0]["indexes"].clone(), e[1][1].clone())).collect::<Vec<_>>()).unwrap());
        }
    }
    let check = |form: &str, o: Outcome, mon: &mut Monitor| {
        mon.count(&format!("outcome:{form}:{o:?}"));
        if o == Outcome::Accept {
            if let RefVerdict::Reject(class, why) = &reference {
                mon.violation(
                    &format!("C01 accepted-but-reference-rejects: {class}"),
                    &format!("verify accepted ({form} form, mutator {}) although: {why}", c.mutator),
                    json!({"world": world_desc, "msg_hex": vcore::hex(msg), "mutator": c.mutator, "form": form,
                           "aggregate": c.value, "reference_reason": why}),
                );
            }
        }
    };
    check("json", o_json, mon);
    if c.mutator == "identity" {
        // completeness / oracle self-check on the honest value
        if o_json != Outcome::Accept {
            mon.violation(
                "C01 honest aggregate rejected",
                "verify rejected an honest aggregate produced by the library",
                json!({"world": world_desc, "msg_hex": vcore::hex(msg), "aggregate": c.value}),
            );
        }
        if let RefVerdict::Reject(_, why) = &reference {
            mon.inconclusive(&format!("reference rule rejects an honest aggregate: {why} (oracle bug?)"));
        }
    }
    // CBOR form
    match catch(|| agg.to_bytes()) {
        Ok(Ok(bytes)) => match catch(|| AggregateSignature::<D>::from_bytes(&bytes)) {
            Ok(Ok(a2)) => {
                let o = verify_outcome(&a2, w, msg, mon);
                check("cbor", o, mon);
                if o != o_json {
                    mon.count("form_disagreement_cbor");
                }
            }
            Ok(Err(_)) => mon.count("cbor_redecode_error"),
            Err(p) => mon.count(&format!("decoder_panic@{}", vcore::panic_location(&p))),
        },
        _ => mon.count("cbor_encode_error"),
    }
    // legacy bytes form
    if let Some(bytes) = legacy::aggregate(&ra) {
        match catch(|| AggregateSignature::<D>::from_bytes(&bytes)) {
            Ok(Ok(a3)) => {
                let o = verify_outcome(&a3, w, msg, mon);
                check("legacy", o, mon);
                if o != o_json {
                    mon.count("form_disagreement_legacy");
                }
            }
            Ok(Err(_)) => mon.count("legacy_decode_error"),
            Err(p) => mon.count(&format!("decoder_panic@{}", vcore::panic_location(&p))),
        }
    }
    if ref_ok == Some(false) {
        mon.nontrivial_str(&format!("{}|{}", c.mutator, serde_json::to_string(&c.value).unwrap()));
    }
    (o_json, Some(agg), ref_ok)
}

pub fn world_desc(w: &World) -> Value {
    json!({"m": w.params.m, "k": w.params.k, "phi_f": w.params.phi_f,
           "stakes": w.parties.iter().map(|p| p.stake).collect::<Vec<_>>(),
           "total_stake": w.total_stake})
}

fn gen_world(rng: &mut ChaCha20Rng, force_single: bool) -> Option<(World, World)> {
    let n = if force_single { 1 } else { 1 + rnd::usize_below(rng, 12) };
    let m = 1 + rnd::below(rng, 40);
    let k = 1 + rnd::below(rng, m.min(12));
    let mut phi = *rnd::pick(rng, &world::PHIS);
    let mut k = k;
    if force_single {
        // single-party worlds feed the compensation adversary: make honest aggregation likely
        phi = *rnd::pick(rng, &[0.8, 0.95, 1.0]);
        k = k.min((m / 3).max(1));
    }
    let params = Parameters { m, k, phi_f: phi };
    let kind = rng.next_u64();
    let stakes = if force_single { vec![1 + rnd::below(rng, 1000)] } else { world::stake_profile(kind, n, rng) };
    let w = World::build(params, &stakes, rng)?;
    let an = 1 + rnd::usize_below(rng, 3);
    // adversarial stakes never exceed W's total: a claimed stake far above the total only makes the
    // verifier's lottery series slow (seconds per index), it is not a soundness case
    let astakes: Vec<u64> = (0..an).map(|_| 1 + rnd::below(rng, w.total_stake.min(1 << 40))).collect();
    let adv = World::build(params, &astakes, rng)?;
    Some((w, adv))
}

struct Member {
    agg: AggregateSignature<D>,
    msg: Vec<u8>,
    wi: usize,
    /// parameters this member is to be verified with in a batch (None = its world's)
    params: Option<Parameters>,
    ref_ok: Option<bool>,
    alone: Outcome,
    label: String,
    value: Value,
}

fn batch_outcome(members: &[&Member], worlds: &[World], mon: &mut Monitor) -> Outcome {
    let aggs: Vec<AggregateSignature<D>> = members.iter().map(|m| m.agg.clone()).collect();
    let msgs: Vec<Vec<u8>> = members.iter().map(|m| m.msg.clone()).collect();
    let avks: Vec<AggregateVerificationKey<D>> = members.iter().map(|m| worlds[m.wi].avk.clone()).collect();
    let params: Vec<Parameters> = members.iter().map(|m| m.params.unwrap_or(worlds[m.wi].params)).collect();
    let anc = vec![None; members.len()];
    let gen = vec![None; members.len()];
    match catch(|| AggregateSignature::<D>::batch_verify(&aggs, &msgs, &avks, &params, &anc, &gen)) {
        Ok(Ok(())) => Outcome::Accept,
        Ok(Err(_)) => Outcome::Reject,
        Err(p) => {
            mon.count(&format!("batch_verifier_panic@{}", vcore::panic_location(&p)));
            Outcome::Panic
        }
    }
}

fn check_batch(members: &[&Member], worlds: &[World], kind: &str, mon: &mut Monitor) {
    mon.eval();
    mon.count(&format!("batch:{kind}"));
    let o = batch_outcome(members, worlds, mon);
    mon.count(&format!("batch_outcome:{kind}:{o:?}"));
    if o == Outcome::Accept {
        for mbr in members {
            if mbr.ref_ok == Some(false) || mbr.alone == Outcome::Reject {
                let sig = if kind == "compensation" {
                    "C01 batch_verify cross-member sigma compensation".to_string()
                } else {
                    format!("C01 batch accepted with a member that is rejected alone ({kind})")
                };
                mon.violation(
                    &sig,
                    &format!(
                        "batch_verify accepted a batch of {} although member '{}' is rejected alone (verify alone: {:?}, reference accepts: {:?})",
                        members.len(), mbr.label, mbr.alone, mbr.ref_ok
                    ),
                    json!({"kind": kind,
                           "members": members.iter().map(|m| json!({"label": m.label, "msg_hex": vcore::hex(&m.msg),
                               "world": world_desc(&worlds[m.wi]), "parameters_of_this_member": m.params.map(|p| format!("{p:?}")), "aggregate": m.value,
                               "alone": format!("{:?}", m.alone)})).collect::<Vec<_>>()}),
                );
                break;
            }
        }
    }
    if members.iter().any(|m| m.ref_ok == Some(false)) {
        mon.nontrivial_str(&format!(
            "batch|{kind}|{}",
            members.iter().map(|m| serde_json::to_string(&m.value).unwrap()).collect::<Vec<_>>().join("|")
        ));
    }
}

/// single-signature level: SingleSignature::verify accept => indices in range, won, sigma valid
fn single_signature_checks(w: &World, msg: &[u8], rng: &mut ChaCha20Rng, mon: &mut Monitor) {
    let msgp = w.msgp(msg);
    for (pi, signer) in w.signers.iter().enumerate() {
        let Ok(sig) = signer.create_single_signature(msg) else { continue };
        let p = &w.parties[pi];
        let honest = sig.get_concatenation_signature_indices();
        let mut lists: Vec<(String, Vec<u64>)> = vec![("honest".into(), honest.clone())];
        let mut l = honest.clone();
        l.push(w.params.m);
        lists.push(("add_m".into(), l));
        let mut l = honest.clone();
        l.push(w.params.m + 1);
        lists.push(("add_m_plus_1".into(), l));
        let mut l = honest.clone();
        l.push(rnd::below(rng, w.params.m));
        lists.push(("add_random".into(), l));
        lists.push(("all_0_to_m".into(), (0..=w.params.m).collect()));
        for (name, l) in lists {
            let mut s2 = sig.clone();
            s2.set_concatenation_signature_indices(&l);
            for (sname, stake) in [("true_stake", p.stake), ("total_stake", w.total_stake)] {
                mon.eval();
                let r = catch(|| s2.verify(&w.params, &p.vkpop.vk, &stake, &w.avk, msg));
                let accepted = matches!(r, Ok(Ok(())));
                mon.count(&format!("single:{name}:{sname}:{}", if accepted { "accept" } else { "reject" }));
                if accepted {
                    let sigma = s2.get_concatenation_signature_sigma().to_bytes();
                    let mut why = None;
                    for &i in &l {
                        if i >= w.params.m {
                            why = Some(("index-out-of-range", format!("index {i} outside [0,{})", w.params.m)));
                            break;
                        }
                        let ev = refagg::draw(&msgp, i, &sigma);
                        if crate::reflot::won_f64(w.params.phi_f, &ev, stake, w.total_stake) == Some(false) {
                            why = Some(("index-not-won", format!("index {i} not won by stake {stake}")));
                            break;
                        }
                    }
                    if why.is_none() && !refagg::bls_verify(&sigma, &p.vk, &msgp) {
                        why = Some(("sigma-invalid", "sigma invalid".to_string()));
                    }
                    if let Some((class, why)) = why {
                        mon.violation(
                            &format!("C01 single signature accepted-but-reference-rejects: {class}"),
                            &format!("SingleSignature::verify accepted ({name}, {sname}) although: {why}"),
                            json!({"world": world_desc(w), "msg_hex": vcore::hex(msg), "party": pi, "indexes": l, "stake_used": stake}),
                        );
                    }
                }
                if name != "honest" {
                    mon.nontrivial_str(&format!("single|{}|{:?}|{}|{}", vcore::hex(&p.vk), l, stake, vcore::hex(msg)));
                }
            }
        }
    }
}

/// Build the cross-member compensation pair: two single-signature aggregates over (possibly
/// different) worlds/messages with sigma_1 + P and sigma_2 - P, each claiming exactly the indices
/// the altered sigma wins.
fn compensation_pair(worlds: &[World], wi1: usize, wi2: usize, rng: &mut ChaCha20Rng, mon: &mut Monitor) -> Option<(Member, Member)> {
    let mk = |wi: usize, rng: &mut ChaCha20Rng| -> Option<(Value, Vec<u8>)> {
        let w = &worlds[wi];
        let len = 1 + rnd::usize_below(rng, 40);
        let msg = rnd::bytes(rng, len);
        let sigs = w.sign_all(&msg);
        let a = w.aggregate(&sigs, &msg).ok()?;
        let v = serde_json::to_value(&a).unwrap();
        if sig_count(&v) != 1 {
            return None;
        }
        Some((v, msg))
    };
    let (v1, msg1) = mk(wi1, rng)?;
    let (v2, msg2) = mk(wi2, rng)?;
    // grind the delta until both altered sigmas still win >= k indices (an attacker would do the same)
    for _try in 0..64 {
        let delta = g1::random_point(&rnd::bytes(rng, 16));
        let nd = g1::neg(&delta)?;
        let s1 = g1::add(&refagg::bytes_of(&v1["signatures"][0][0]["sigma"]), &delta)?;
        let s2 = g1::add(&refagg::bytes_of(&v2["signatures"][0][0]["sigma"]), &nd)?;
        let won = |w: &World, msg: &[u8], sigma: &[u8], stake: u64| -> Vec<u64> {
            let msgp = w.msgp(msg);
            (0..w.params.m)
                .filter(|&i| crate::reflot::won_f64(w.params.phi_f, &refagg::draw(&msgp, i, sigma), stake, w.total_stake) == Some(true))
                .collect()
        };
        let st1 = v1["signatures"][0][1][1].as_u64()?;
        let st2 = v2["signatures"][0][1][1].as_u64()?;
        let w1 = won(&worlds[wi1], &msg1, &s1, st1);
        let w2 = won(&worlds[wi2], &msg2, &s2, st2);
        if (w1.len() as u64) < worlds[wi1].params.k || (w2.len() as u64) < worlds[wi2].params.k {
            continue;
        }
        let mut a1 = v1.clone();
        a1["signatures"][0][0]["sigma"] = to_bytes_json(&s1);
        set_idx(&mut a1, 0, &w1);
        let mut a2 = v2.clone();
        a2["signatures"][0][0]["sigma"] = to_bytes_json(&s2);
        set_idx(&mut a2, 0, &w2);
        let mut build = |v: Value, msg: Vec<u8>, wi: usize, label: &str| -> Option<Member> {
            let c = Candidate { mutator: label.to_string(), value: v.clone() };
            let (alone, agg, ref_ok) = judge(&c, &worlds[wi], &msg, &world_desc(&worlds[wi]), mon);
            Some(Member { agg: agg?, msg, wi, params: None, ref_ok, alone, label: label.to_string(), value: v })
        };
        let m1 = build(a1, msg1.clone(), wi1, "sigma_plus_delta")?;
        let m2 = build(a2, msg2.clone(), wi2, "sigma_minus_delta")?;
        return Some((m1, m2));
    }
    None
}

pub fn run_shard(shard: u64, mon: &mut Monitor, worlds_per_shard: u64) {
    let mut rng = mon.rng("c01", shard);
    for wn in 0..worlds_per_shard {
        // every 4th world is a single-party one (needed for the compensation adversary)
        let Some((w, adv)) = gen_world(&mut rng, wn % 4 == 3) else {
            mon.count("world_build_failed");
            continue;
        };
        mon.count("worlds");
        let desc = world_desc(&w);
        let t_world = std::time::Instant::now();
        if std::env::var("VERIF_DEBUG").is_ok() {
            eprintln!("shard {shard} world {wn}: {desc}");
        }
        let mut members: Vec<Member> = vec![];
        let worlds = vec![w];
        let w = &worlds[0];
        for _ in 0..2 {
            let len = 1 + rnd::usize_below(&mut rng, 48);
            let msg = rnd::bytes(&mut rng, len);
            single_signature_checks(w, &msg, &mut rng, mon);
            let sigs = w.sign_all(&msg);
            let Ok(agg) = w.aggregate(&sigs, &msg) else {
                mon.count("honest_aggregation_not_enough");
                continue;
            };
            mon.count("honest_aggregates");
            let j = serde_json::to_value(&agg).unwrap();
            if mon.wants_sample() && shard == 0 {
                mon.sample(json!({"world": desc, "msg_hex": vcore::hex(&msg), "honest_aggregate_entries": sig_count(&j),
                    "example_mutators": ["idx_add_m", "entry_foreign_key_own_sigma_total_stake_won_indices", "path_index_padding_pos"]}));
            }
            for c in mutations(&j, w, &adv, &msg, &mut rng) {
                let (o, a, ref_ok) = judge(&c, w, &msg, &desc, mon);
                if let Some(a) = a {
                    // keep a few members for batches: the honest one and some rejected ones
                    if c.mutator == "identity" || (o == Outcome::Reject && members.len() < 12 && rnd::chance(&mut rng, 1, 6)) {
                        members.push(Member { agg: a, msg: msg.clone(), wi: 0, params: None, ref_ok, alone: o, label: c.mutator.clone(), value: c.value.clone() });
                    }
                }
            }
        }
        // members verified under OTHER parameters than the rest of the batch: an honest aggregate of
        // this world presented with stricter parameters (one more index required than it holds / a
        // phi_f under which its draws lose / m at or below one of its indices) is rejected alone and
        // must stay rejected next to members that carry the world's (laxer) parameters
        {
            let honest_now: Vec<(AggregateSignature<D>, Vec<u8>, Value)> =
                members.iter().filter(|m| m.label == "identity" && m.alone == Outcome::Accept).map(|m| (m.agg.clone(), m.msg.clone(), m.value.clone())).collect();
            for (agg, msg, value) in honest_now.into_iter().take(2) {
                let all_idx: Vec<u64> = (0..sig_count(&value)).flat_map(|e| idx_list(&value, e)).collect();
                let p = w.params;
                let variants = [
                    ("k", Parameters { k: all_idx.len() as u64 + 1, ..p }),
                    ("phi_f", Parameters { phi_f: if p.phi_f > 0.06 { 0.05 } else { 0.01 }, ..p }),
                    ("m", Parameters { m: all_idx.iter().copied().max().unwrap_or(0), ..p }),
                ];
                for (what, sp) in variants {
                    let alone = match catch(|| agg.verify(&msg, &w.avk, &sp, None, None)) {
                        Ok(Ok(())) => Outcome::Accept,
                        Ok(Err(_)) => Outcome::Reject,
                        Err(_) => Outcome::Panic,
                    };
                    mon.count(&format!("member_under_stricter_parameters:{what}:alone:{alone:?}"));
                    if alone == Outcome::Reject {
                        members.push(Member { agg: agg.clone(), msg: msg.clone(), wi: 0, params: Some(sp), ref_ok: None, alone,
                            label: format!("honest_aggregate_under_stricter_parameters:{what}"), value: value.clone() });
                    }
                }
            }
        }
        // batches: honest members alone, then honest + one rejected member at every position
        let honest: Vec<&Member> = members.iter().filter(|m| m.label == "identity" && m.alone == Outcome::Accept).collect();
        if !honest.is_empty() {
            check_batch(&honest, &worlds, "honest", mon);
            if batch_outcome(&honest, &worlds, mon) != Outcome::Accept {
                mon.violation("C01 honest batch rejected", "batch_verify rejected a batch of honest aggregates",
                    json!({"world": desc}));
            }
            for bad in members.iter().filter(|m| m.alone == Outcome::Reject) {
                for pos in 0..=honest.len() {
                    let mut b = honest.clone();
                    b.insert(pos, bad);
                    check_batch(&b, &worlds, "one_rejected_member", mon);
                }
            }
        }
        if std::env::var("VERIF_DEBUG").is_ok() {
            eprintln!("shard {shard} world {wn}: done in {:?}", t_world.elapsed());
        }
        // compensation adversary across two members
        if worlds[0].parties.len() == 1 {
            if let Some((m1, m2)) = compensation_pair(&worlds, 0, 0, &mut rng, mon) {
                mon.count("compensation_pairs_built");
                check_batch(&[&m1, &m2], &worlds, "compensation", mon);
                check_batch(&[&m2, &m1], &worlds, "compensation", mon);
                for h in &honest {
                    check_batch(&[&m1, h, &m2], &worlds, "compensation", mon);
                }
            }
        }
    }
}
