//! C02 — aggregation completeness and monotonicity under extra or repeated signatures.
//! Oracle: V = members of S that are valid for msg (public SingleSignature::verify under the key
//! registered at the slot the signature names, cross-checked with blst), I = union of their index
//! lists.  (a) signer-produced signatures are valid; (b) |I| >= k  =>  aggregate(S) = Ok and the
//! result verifies; (c) aggregate(S) = Ok  =>  aggregate(S + X) = Ok for any extra material X.
use crate::refagg;
use crate::world::{self, World, D};
use crate::g1;
use mithril_stm::*;
use rand_chacha::ChaCha20Rng;
use rand_core::RngCore;
use serde_json::{json, Value};
use std::collections::BTreeSet;
use vcore::rnd;
use vcore::{catch, Monitor};

#[derive(Clone)]
pub struct Item {
    pub sig: SingleSignature,
    pub tag: String,
}

fn sig_json(s: &SingleSignature) -> Value {
    json!({"sigma": vcore::hex(&s.get_concatenation_signature_sigma().to_bytes()),
           "indexes": s.get_concatenation_signature_indices(), "signer_index": s.signer_index})
}

fn with_sigma(s: &SingleSignature, sigma: &[u8]) -> Option<SingleSignature> {
    let mut v = serde_json::to_value(s).ok()?;
    v["sigma"] = Value::Array(sigma.iter().map(|b| json!(*b)).collect());
    serde_json::from_value(v).ok()
}
fn with_slot(s: &SingleSignature, slot: u64) -> SingleSignature {
    let mut c = s.clone();
    c.signer_index = slot;
    c
}

/// validity as the statement means it: valid for msg under the key registered at the named slot
fn is_valid(w: &World, s: &SingleSignature, msg: &[u8]) -> bool {
    let Some(p) = w.parties.iter().find(|p| p.slot == s.signer_index) else { return false };
    let lib = matches!(catch(|| s.verify(&w.params, &p.vkpop.vk, &p.stake, &w.avk, msg)), Ok(Ok(())));
    lib
}

#[derive(Debug, Clone, PartialEq)]
enum AggOutcome {
    Ok { verifies: bool, indices: u64 },
    NotEnough,
    OtherError(String),
    Panic(String),
}

fn aggregate_outcome(w: &World, s: &[Item], msg: &[u8]) -> AggOutcome {
    let sigs: Vec<SingleSignature> = s.iter().map(|i| i.sig.clone()).collect();
    match catch(|| w.aggregate(&sigs, msg)) {
        Ok(Ok(a)) => {
            let verifies = matches!(catch(|| w.verify(&a, msg)), Ok(Ok(())));
            let n = refagg::parse(&serde_json::to_value(&a).unwrap())
                .map(|r| r.sigs.iter().map(|s| s.indexes.len() as u64).sum())
                .unwrap_or(0);
            AggOutcome::Ok { verifies, indices: n }
        }
        Ok(Err(e)) => {
            let not_enough = e.chain().any(|c| {
                matches!(c.downcast_ref::<AggregationError>(), Some(AggregationError::NotEnoughSignatures(..)))
            });
            if not_enough {
                AggOutcome::NotEnough
            } else {
                AggOutcome::OtherError(format!("{e:#}").chars().take(160).collect())
            }
        }
        Err(p) => AggOutcome::Panic(p),
    }
}

fn describe(s: &[Item]) -> Value {
    Value::Array(s.iter().map(|i| json!({"tag": i.tag, "sig": sig_json(&i.sig)})).collect())
}

fn shape(s: &[Item]) -> String {
    // the multiset shape: ordered list of provenance tags
    s.iter().map(|i| i.tag.as_str()).collect::<Vec<_>>().join(",")
}

/// classify the extra material so that known findings can be keyed on the exact class
fn extra_class(extra: &[Item]) -> String {
    let mut kinds: BTreeSet<String> = BTreeSet::new();
    for i in extra {
        let k = i.tag.split(':').next().unwrap_or("").to_string();
        kinds.insert(k);
    }
    kinds.into_iter().collect::<Vec<_>>().join("+")
}

struct Judged {
    out: AggOutcome,
    union: usize,
}

fn judge(w: &World, s: &[Item], msg: &[u8], extra_kind: &str, desc: &Value, mon: &mut Monitor) -> Judged {
    mon.eval();
    let valid: Vec<bool> = s.iter().map(|i| is_valid(w, &i.sig, msg)).collect();
    let mut union: BTreeSet<u64> = BTreeSet::new();
    for (i, v) in s.iter().zip(valid.iter()) {
        if *v {
            union.extend(i.sig.get_concatenation_signature_indices());
        }
    }
    let out = aggregate_outcome(w, s, msg);
    mon.count(&format!(
        "outcome:{}",
        match &out {
            AggOutcome::Ok { .. } => "ok",
            AggOutcome::NotEnough => "not_enough",
            AggOutcome::OtherError(_) => "other_error",
            AggOutcome::Panic(_) => "panic",
        }
    ));
    let enough = union.len() as u64 >= w.params.k;
    let replay = || json!({"world": desc, "msg_hex": vcore::hex(msg), "k": w.params.k, "valid_union_size": union.len(), "signatures": describe(s)});
    match &out {
        AggOutcome::Ok { verifies, .. } => {
            if !verifies {
                mon.violation("C02 aggregation result does not verify", &format!("aggregate succeeded on [{}] but the result does not verify", shape(s)), replay());
            }
            if !enough {
                // would be a soundness problem (C01's business) - record as diagnostic
                mon.count("diag:aggregated_with_fewer_than_k_valid_indices");
            }
        }
        other => {
            if enough {
                let how = match other {
                    AggOutcome::NotEnough => "NotEnoughSignatures".to_string(),
                    AggOutcome::OtherError(e) => format!("error: {e}"),
                    AggOutcome::Panic(p) => format!("panic: {p}"),
                    _ => unreachable!(),
                };
                let kind = match other {
                    AggOutcome::NotEnough => "not-enough",
                    AggOutcome::OtherError(_) => "error",
                    _ => "panic",
                };
                mon.violation(
                    &format!("C02 valid signatures cover k indices but aggregation fails ({kind}; extra material: {extra_kind})"),
                    &format!("valid signatures cover {} >= k={} distinct indices but aggregation returned {how}; multiset [{}]", union.len(), w.params.k, shape(s)),
                    replay(),
                );
            }
        }
    }
    if !s.is_empty() && extra_kind != "none" {
        mon.nontrivial_str(&format!("{}|{}|{}", vcore::hex(msg), shape(s), serde_json::to_string(&describe(s)).unwrap()));
    }
    Judged { out, union: union.len() }
}

/// extra material X derived from the honest set
fn extras(w: &World, adv: &World, honest: &[Item], msg: &[u8], rng: &mut ChaCha20Rng) -> Vec<(String, Vec<Item>)> {
    let mut out: Vec<(String, Vec<Item>)> = vec![];
    if honest.is_empty() {
        return out;
    }
    let pick = |rng: &mut ChaCha20Rng| honest[rnd::usize_below(rng, honest.len())].clone();
    // exact duplicates
    for copies in 1..=3 {
        let h = pick(rng);
        out.push(("dup".into(), (0..copies).map(|c| Item { sig: h.sig.clone(), tag: format!("dup:{}#{}", h.tag, c) }).collect()));
    }
    out.push(("dup".into(), honest.iter().map(|h| Item { sig: h.sig.clone(), tag: format!("dup:{}", h.tag) }).collect()));
    // re-labelled copies: same sigma, restricted / reordered index list
    {
        let h = pick(rng);
        let idx = h.sig.get_concatenation_signature_indices();
        if idx.len() >= 2 {
            let keep = 1 + rnd::usize_below(rng, idx.len() - 1);
            let mut l = idx.clone();
            rnd::shuffle(rng, &mut l);
            l.truncate(keep);
            let mut c = h.sig.clone();
            c.set_concatenation_signature_indices(&l);
            out.push(("subset".into(), vec![Item { sig: c, tag: format!("subset:{}", h.tag) }]));
            let mut l = idx.clone();
            l.reverse();
            let mut c = h.sig.clone();
            c.set_concatenation_signature_indices(&l);
            out.push(("reorder".into(), vec![Item { sig: c, tag: format!("reorder:{}", h.tag) }]));
        }
        // restricted copies of every honest signature
        let mut all = vec![];
        for h in honest {
            let idx = h.sig.get_concatenation_signature_indices();
            if idx.len() >= 2 {
                let mut c = h.sig.clone();
                c.set_concatenation_signature_indices(&idx[..1]);
                all.push(Item { sig: c, tag: format!("subset:{}", h.tag) });
            }
        }
        if !all.is_empty() {
            out.push(("subset".into(), all));
        }
    }
    // same sigma under another registered slot / an unregistered slot
    {
        let h = pick(rng);
        let other = (h.sig.signer_index + 1) % w.nr_leaves.max(1);
        if other != h.sig.signer_index {
            out.push(("otherslot".into(), vec![Item { sig: with_slot(&h.sig, other), tag: format!("otherslot:{}", h.tag) }]));
        }
        out.push(("badslot".into(), vec![Item { sig: with_slot(&h.sig, w.nr_leaves), tag: format!("badslot:{}", h.tag) }]));
        out.push(("badslot".into(), vec![Item { sig: with_slot(&h.sig, u64::MAX), tag: format!("badslot:{}", h.tag) }]));
    }
    // corrupted sigma (valid curve point, invalid signature), another party's sigma
    {
        let h = pick(rng);
        let sigma = h.sig.get_concatenation_signature_sigma().to_bytes();
        let delta = g1::random_point(&rnd::bytes(rng, 16));
        if let Some(s2) = g1::add(&sigma, &delta).and_then(|b| with_sigma(&h.sig, &b)) {
            out.push(("corrupt".into(), vec![Item { sig: s2, tag: format!("corrupt:{}", h.tag) }]));
        }
        let o = pick(rng);
        if o.sig.signer_index != h.sig.signer_index {
            if let Some(s2) = with_sigma(&h.sig, &o.sig.get_concatenation_signature_sigma().to_bytes()) {
                out.push(("corrupt".into(), vec![Item { sig: s2, tag: format!("foreignsigma:{}", h.tag) }]));
            }
        }
        // honest sigma claiming an index it did not win (superset)
        let idx = h.sig.get_concatenation_signature_indices();
        if let Some(extra) = (0..w.params.m).find(|i| !idx.contains(i)) {
            let mut l = idx.clone();
            l.push(extra);
            let mut c = h.sig.clone();
            c.set_concatenation_signature_indices(&l);
            if !is_valid(w, &c, msg) {
                out.push(("superset".into(), vec![Item { sig: c, tag: format!("superset:{}", h.tag) }]));
            }
        }
    }
    // signatures on other messages
    {
        let mut v = vec![];
        for n in 0..(1 + rnd::usize_below(rng, 3)) {
            let mut m2 = msg.to_vec();
            m2.push(n as u8);
            for (i, s) in w.signers.iter().enumerate() {
                if let Ok(sig) = s.create_single_signature(&m2) {
                    v.push(Item { sig, tag: format!("othermsg:p{}m{}", i, n) });
                }
            }
        }
        if !v.is_empty() {
            out.push(("othermsg".into(), v));
        }
    }
    // signatures from a different registration
    {
        let v: Vec<Item> = adv
            .signers
            .iter()
            .enumerate()
            .filter_map(|(i, s)| s.create_single_signature(msg).ok().map(|sig| Item { sig, tag: format!("otherreg:a{}", i) }))
            .filter(|i| i.sig.signer_index < w.nr_leaves)
            .collect();
        if !v.is_empty() {
            out.push(("otherreg".into(), v));
        }
    }
    out
}

fn interleavings(base: &[Item], extra: &[Item], rng: &mut ChaCha20Rng) -> Vec<Vec<Item>> {
    let mut out = vec![];
    // after, before, interleaved, shuffled
    let mut a = base.to_vec();
    a.extend_from_slice(extra);
    out.push(a.clone());
    let mut b = extra.to_vec();
    b.extend_from_slice(base);
    out.push(b);
    let mut c = vec![];
    let (mut i, mut j) = (0, 0);
    while i < base.len() || j < extra.len() {
        if i < base.len() {
            c.push(base[i].clone());
            i += 1;
        }
        if j < extra.len() {
            c.push(extra[j].clone());
            j += 1;
        }
    }
    out.push(c);
    if a.len() <= 5 {
        for p in rnd::permutations(a.len()) {
            out.push(p.iter().map(|&x| a[x].clone()).collect());
        }
    } else {
        for _ in 0..4 {
            let mut s = a.clone();
            rnd::shuffle(rng, &mut s);
            out.push(s);
        }
    }
    out
}

pub fn run_shard(shard: u64, mon: &mut Monitor, worlds: u64) {
    let mut rng = mon.rng("c02", shard);
    for _ in 0..worlds {
        let n = 1 + rnd::usize_below(&mut rng, 8);
        let m = 2 + rnd::below(&mut rng, 30);
        let k = 1 + rnd::below(&mut rng, m.min(10));
        let phi = *rnd::pick(&mut rng, &[0.2, 0.5, 0.8, 0.95, 1.0]);
        let params = Parameters { m, k, phi_f: phi };
        let kind = rng.next_u64();
        let stakes = world::stake_profile(kind, n, &mut rng);
        let Some(w) = World::build(params, &stakes, &mut rng) else { continue };
        let astakes: Vec<u64> = (0..(1 + rnd::usize_below(&mut rng, 3))).map(|_| 1 + rnd::below(&mut rng, w.total_stake.min(1 << 40))).collect();
        let Some(adv) = World::build(params, &astakes, &mut rng) else { continue };
        mon.count("worlds");
        let desc = crate::c01::world_desc(&w);
        let len = 1 + rnd::usize_below(&mut rng, 32);
        let msg = rnd::bytes(&mut rng, len);
        // honest set
        let mut honest: Vec<Item> = vec![];
        for (i, s) in w.signers.iter().enumerate() {
            match catch(|| s.create_single_signature(&msg)) {
                Ok(Ok(sig)) => {
                    mon.eval();
                    // (a) every signer-produced signature verifies
                    if !is_valid(&w, &sig, &msg) {
                        mon.violation("C02 signer-produced signature does not verify", "a signature produced by a registered signer is rejected by SingleSignature::verify",
                            json!({"world": desc, "msg_hex": vcore::hex(&msg), "party": i, "sig": sig_json(&sig)}));
                    }
                    // cross-check with blst directly
                    if !refagg::bls_verify(&sig.get_concatenation_signature_sigma().to_bytes(), &w.parties[i].vk, &w.msgp(&msg)) {
                        mon.violation("C02 signer-produced sigma invalid under blst", "sigma of an honest signature does not verify with blst directly",
                            json!({"world": desc, "msg_hex": vcore::hex(&msg), "party": i}));
                    }
                    honest.push(Item { sig, tag: format!("h{}", i) });
                }
                Ok(Err(_)) => mon.count("signer_lost_lottery"),
                Err(p) => mon.violation("C02 signer panics", &format!("create_single_signature panicked: {p}"), json!({"world": desc})),
            }
        }
        if honest.is_empty() {
            continue;
        }
        // base sets: the whole honest set and a random subset
        let mut bases: Vec<Vec<Item>> = vec![honest.clone()];
        if honest.len() > 1 {
            let mut sub = honest.clone();
            rnd::shuffle(&mut rng, &mut sub);
            sub.truncate(1 + rnd::usize_below(&mut rng, honest.len() - 1));
            bases.push(sub);
        }
        for base in bases {
            // order independence of the base itself
            let base_j = judge(&w, &base, &msg, "none", &desc, mon);
            if base.len() <= 5 {
                for p in rnd::permutations(base.len()) {
                    let s: Vec<Item> = p.iter().map(|&x| base[x].clone()).collect();
                    let j = judge(&w, &s, &msg, "permutation", &desc, mon);
                    if matches!(base_j.out, AggOutcome::Ok { .. }) != matches!(j.out, AggOutcome::Ok { .. }) {
                        mon.violation("C02 aggregation outcome depends on the order of the signatures",
                            &format!("[{}] -> {:?} but [{}] -> {:?}", shape(&base), base_j.out, shape(&s), j.out),
                            json!({"world": desc, "msg_hex": vcore::hex(&msg), "a": describe(&base), "b": describe(&s)}));
                    }
                }
                mon.count("exhaustive_permutation_sets");
            }
            if mon.wants_sample() && shard == 0 {
                mon.sample(json!({"world": desc, "msg_hex": vcore::hex(&msg), "base": shape(&base), "valid_union": base_j.union,
                    "outcome": format!("{:?}", base_j.out)}));
            }
            for (kind, extra) in extras(&w, &adv, &honest, &msg, &mut rng) {
                mon.count(&format!("extra:{kind}"));
                let class = extra_class(&extra);
                for s in interleavings(&base, &extra, &mut rng) {
                    let j = judge(&w, &s, &msg, &class, &desc, mon);
                    // (c) monotonicity
                    if matches!(base_j.out, AggOutcome::Ok { .. }) && !matches!(j.out, AggOutcome::Ok { .. }) {
                        mon.violation(
                            &format!("C02 extra material turns a successful aggregation into a failure (extra material: {class})"),
                            &format!("aggregate([{}]) = Ok but aggregate([{}]) = {:?}", shape(&base), shape(&s), j.out),
                            json!({"world": desc, "msg_hex": vcore::hex(&msg), "base": describe(&base), "with_extra": describe(&s)}),
                        );
                    }
                }
            }
        }
    }
}
