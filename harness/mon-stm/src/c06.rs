//! C06 — all parties derive the same aggregate key from the same registrations.
//! Observations for one registration SET must be equal across registration orders and across
//! computation paths; neighbouring sets must give a different key.
//!   p1  mithril-stm directly: KeyRegistration (+ Clerk)
//!   p2  mithril_common::protocol::SignerBuilder::new(..).compute_aggregate_verification_key()
//!   p3  p2 after every signer went SignerWithStake -> SignerWithStakeMessagePart -> JSON text -> back
//!       (what a client recomputing a stake-distribution message does), and the key through its
//!       JSON-hex and bytes-hex codecs
use crate::world::D;
use mithril_common::crypto_helper::ProtocolKey;
use mithril_common::entities::{ProtocolParameters, SignerWithStake};
use mithril_common::messages::SignerWithStakeMessagePart;
use mithril_common::protocol::SignerBuilder;
use mithril_common::test::builder::{MithrilFixtureBuilder, StakeDistributionGenerationMethod};
use mithril_stm::*;
use rand_chacha::ChaCha20Rng;
use rand_core::{RngCore, SeedableRng};
use serde_json::json;
use vcore::rnd;
use vcore::{catch, Monitor};

#[derive(Clone)]
struct Reg {
    vkpop: VerificationKeyProofOfPossessionForConcatenation,
    vk: [u8; 96],
    stake: u64,
}

#[derive(Clone, PartialEq, Eq, Debug)]
struct Obs {
    avk_bytes: Vec<u8>,
    total: u64,
    /// (vk hex, slot) sorted by vk
    slots: Vec<(String, u64)>,
}

fn avk_bytes(avk: &AggregateVerificationKey<D>) -> Vec<u8> {
    avk.to_concatenation_aggregate_verification_key().to_bytes().unwrap()
}

/// p1: register in the given order through mithril-stm
fn observe_stm(regs: &[Reg], params: &Parameters) -> Result<Obs, String> {
    let mut kr = KeyRegistration::initialize();
    for r in regs {
        let e = RegistrationEntry::new(r.vkpop, r.stake).map_err(|e| format!("{e}"))?;
        kr.register_by_entry(&e).map_err(|e| format!("{e}"))?;
    }
    let closed = kr.close_registration(params).map_err(|e| format!("{e}"))?;
    let clerk: Clerk<D> = Clerk::new_clerk_from_closed_key_registration(params, &closed);
    let avk = clerk.compute_aggregate_verification_key();
    let mut slots: Vec<(String, u64)> = closed
        .closed_registration_entries
        .iter()
        .enumerate()
        .map(|(i, e)| (vcore::hex(&e.get_verification_key_for_concatenation().to_bytes()), i as u64))
        .collect();
    slots.sort();
    // the slot the library reports must agree with the position
    for (i, e) in closed.closed_registration_entries.iter().enumerate() {
        if closed.get_signer_index_for_registration(e) != Some(i as u64) {
            return Err("get_signer_index_for_registration disagrees with the entry position".into());
        }
    }
    Ok(Obs { avk_bytes: avk_bytes(&avk), total: avk.to_concatenation_aggregate_verification_key().get_total_stake(), slots })
}

fn gen_key_pool(rng: &mut ChaCha20Rng, n: usize) -> Vec<Reg> {
    let params = Parameters { m: 10, k: 1, phi_f: 0.5 };
    (0..n)
        .map(|_| {
            let i = Initializer::new(params, 1, rng);
            let vkpop = i.get_verification_key_proof_of_possession_for_concatenation();
            Reg { vkpop, vk: vkpop.vk.to_bytes(), stake: 1 }
        })
        .collect()
}

/// pick n keys from the pool preferring keys that share leading bytes with an already chosen one
fn pick_keys(pool: &[Reg], n: usize, rng: &mut ChaCha20Rng) -> Vec<Reg> {
    let mut chosen: Vec<Reg> = vec![];
    let mut used = vec![false; pool.len()];
    while chosen.len() < n {
        let mut best: Option<usize> = None;
        if !chosen.is_empty() && rnd::chance(rng, 2, 3) {
            // look for an unused key sharing the longest prefix with some chosen key
            let mut best_len = 0;
            for (i, k) in pool.iter().enumerate() {
                if used[i] {
                    continue;
                }
                for c in &chosen {
                    let l = k.vk.iter().zip(c.vk.iter()).take_while(|(a, b)| a == b).count();
                    if l > best_len {
                        best_len = l;
                        best = Some(i);
                    }
                }
            }
        }
        let i = best.unwrap_or_else(|| loop {
            let i = rnd::usize_below(rng, pool.len());
            if !used[i] {
                break i;
            }
        });
        used[i] = true;
        chosen.push(pool[i].clone());
    }
    chosen
}

fn stakes_with_ties(n: usize, kind: u64, rng: &mut ChaCha20Rng) -> Vec<u64> {
    // two profiles in six carry real-world magnitudes: a total stake above 2^53 that no f64 holds
    // exactly (mainnet's total is ~2.2e16 lovelace)
    match kind % 6 {
        4 => return (0..n).map(|i| (22_500_000_000_000_007u64 / n as u64) + 2 * i as u64 + 1 + rnd::below(rng, 1000)).collect(),
        5 => return (0..n).map(|_| (1u64 << 53) / (n as u64) + (1 << 40) + 1 + 2 * rnd::below(rng, 1 << 30)).collect(),
        _ => {}
    }
    match kind % 4 {
        0 => vec![7; n],
        1 => (0..n).map(|i| 1 + (i as u64 % 3)).collect(),
        2 => (0..n).map(|i| if i > 0 && i % 3 == 0 { 0 } else { 1 + rnd::below(rng, 4) }).collect(),
        _ => (0..n).map(|_| 1 + rnd::below(rng, 1_000_000)).collect(),
    }
}

fn set_key(regs: &[Reg]) -> String {
    let mut v: Vec<String> = regs.iter().map(|r| format!("{}:{}", vcore::hex(&r.vk[..8]), r.stake)).collect();
    v.sort();
    v.join(",")
}

pub fn run_stm_level(shard: u64, mon: &mut Monitor, sets: u64) {
    let mut rng = mon.rng("c06-stm", shard);
    let pool = gen_key_pool(&mut rng, mon.tier.pick(120, 400));
    let shared2 = {
        let mut c = 0;
        for i in 0..pool.len() {
            for j in 0..i {
                if pool[i].vk[..2] == pool[j].vk[..2] {
                    c += 1;
                }
            }
        }
        c
    };
    mon.count_n("key_pairs_sharing_2_leading_bytes_in_pool", shared2);
    for sn in 0..sets {
        let n = if sn % 3 == 0 { 2 + rnd::usize_below(&mut rng, 5) } else { 7 + rnd::usize_below(&mut rng, 34) };
        let params = Parameters { m: 20, k: 5, phi_f: *rnd::pick(&mut rng, &[0.2, 0.65, 1.0]) };
        let mut regs = pick_keys(&pool, n, &mut rng);
        let kind = rng.next_u64();
        for (r, s) in regs.iter_mut().zip(stakes_with_ties(n, kind, &mut rng)) {
            r.stake = s;
        }
        let base = match catch(|| observe_stm(&regs, &params)) {
            Ok(Ok(o)) => o,
            Ok(Err(e)) => {
                mon.count(&format!("set_rejected:{}", e.chars().take(40).collect::<String>()));
                continue;
            }
            Err(p) => {
                mon.violation("C06 registration panics", &p, json!({"set": set_key(&regs)}));
                continue;
            }
        };
        mon.count("sets");
        if base.total > (1u64 << 53) {
            mon.count("sets_with_a_total_stake_above_2^53");
        }
        // the resulting key through its own encodings (bytes, JSON): same bytes, same total stake
        {
            mon.eval();
            let decoded = catch(|| AggregateVerificationKeyForConcatenation::<D>::from_bytes(&base.avk_bytes));
            match decoded {
                Ok(Ok(k)) => {
                    let again = k.to_bytes().unwrap_or_default();
                    let via_json = serde_json::to_string(&k).ok().and_then(|t| serde_json::from_str::<AggregateVerificationKeyForConcatenation<D>>(&t).ok());
                    let json_ok = via_json.as_ref().map(|j| j.to_bytes().unwrap_or_default() == base.avk_bytes && j.get_total_stake() == base.total);
                    if again != base.avk_bytes || k.get_total_stake() != base.total || json_ok != Some(true) {
                        mon.violation(
                            "C06 aggregate key changed by its own encode / decode round trip",
                            &format!("total stake {}: bytes round trip equal: {}, decoded total {}, JSON round trip equal: {:?}", base.total, again == base.avk_bytes, k.get_total_stake(), json_ok),
                            json!({"set": set_key(&regs), "avk_hex": vcore::hex(&base.avk_bytes), "total_stake": base.total}),
                        );
                    }
                }
                Ok(Err(e)) => mon.violation("C06 aggregate key changed by its own encode / decode round trip", &format!("the key's own bytes do not decode: {e}"), json!({"set": set_key(&regs)})),
                Err(p) => mon.violation("C06 registration panics", &p, json!({"set": set_key(&regs), "with": "key round trip"})),
            }
        }
        if mon.wants_sample() && shard == 0 {
            mon.sample(json!({"level": "stm", "parties": n, "stakes": regs.iter().map(|r| r.stake).collect::<Vec<_>>(),
                "avk_hex": vcore::hex(&base.avk_bytes), "total_stake": base.total}));
        }
        // permutations
        let perms: Vec<Vec<usize>> = if n <= 6 {
            mon.count("sets_with_all_permutations");
            rnd::permutations(n)
        } else {
            (0..mon.tier.pick(24, 200))
                .map(|_| {
                    let mut p: Vec<usize> = (0..n).collect();
                    rnd::shuffle(&mut rng, &mut p);
                    p
                })
                .collect()
        };
        for p in perms {
            let permuted: Vec<Reg> = p.iter().map(|&i| regs[i].clone()).collect();
            mon.eval();
            match catch(|| observe_stm(&permuted, &params)) {
                Ok(Ok(o)) => {
                    if o != base {
                        let what = if o.avk_bytes != base.avk_bytes {
                            "aggregate key"
                        } else if o.total != base.total {
                            "total stake"
                        } else {
                            "signer slots"
                        };
                        mon.violation(
                            &format!("C06 {what} depends on the registration order"),
                            &format!("{what} differs between two registration orders of the same set"),
                            json!({"set": set_key(&regs), "order": p, "base_avk": vcore::hex(&base.avk_bytes), "other_avk": vcore::hex(&o.avk_bytes)}),
                        );
                    }
                }
                Ok(Err(e)) => mon.violation("C06 registration outcome depends on the order", &e, json!({"set": set_key(&regs), "order": p})),
                Err(pn) => mon.violation("C06 registration panics", &pn, json!({"set": set_key(&regs), "order": p})),
            }
            mon.nontrivial_str(&format!("{}|{:?}", set_key(&regs), p));
        }
        // registration histories with REJECTED attempts in between: a key that is already
        // registered is offered again (same stake, another stake); the registration refuses it, so
        // the registered set is unchanged and so must be the key, the total stake and the slots
        for _ in 0..3 {
            let mut order: Vec<usize> = (0..n).collect();
            rnd::shuffle(&mut rng, &mut order);
            let attempts = 1 + rnd::usize_below(&mut rng, 3);
            mon.eval();
            let r = catch(|| -> Result<(Obs, u64, u64), String> {
                let mut kr = KeyRegistration::initialize();
                let (mut refused, mut taken) = (0u64, 0u64);
                let mut done: Vec<usize> = vec![];
                let mut rng2 = ChaCha20Rng::seed_from_u64(kind ^ order[0] as u64);
                for &i in &order {
                    let e = RegistrationEntry::new(regs[i].vkpop, regs[i].stake).map_err(|e| format!("{e}"))?;
                    kr.register_by_entry(&e).map_err(|e| format!("{e}"))?;
                    done.push(i);
                    for _ in 0..attempts {
                        if rnd::chance(&mut rng2, 1, 2) {
                            let j = *rnd::pick(&mut rng2, &done);
                            let stake = match rnd::below(&mut rng2, 3) {
                                0 => regs[j].stake,
                                1 => regs[j].stake.saturating_add(1 + rnd::below(&mut rng2, 1000)),
                                _ => 1 + rnd::below(&mut rng2, 1 << 40),
                            };
                            let again = RegistrationEntry::new(regs[j].vkpop, stake).map_err(|e| format!("{e}"))?;
                            match kr.register_by_entry(&again) {
                                Err(_) => refused += 1,
                                Ok(_) => taken += 1,
                            }
                        }
                    }
                }
                let closed = kr.close_registration(&params).map_err(|e| format!("{e}"))?;
                let clerk: Clerk<D> = Clerk::new_clerk_from_closed_key_registration(&params, &closed);
                let avk = clerk.compute_aggregate_verification_key();
                let mut slots: Vec<(String, u64)> = closed
                    .closed_registration_entries
                    .iter()
                    .enumerate()
                    .map(|(i, e)| (vcore::hex(&e.get_verification_key_for_concatenation().to_bytes()), i as u64))
                    .collect();
                slots.sort();
                Ok((Obs { avk_bytes: avk_bytes(&avk), total: avk.to_concatenation_aggregate_verification_key().get_total_stake(), slots }, refused, taken))
            });
            match r {
                Ok(Ok((o, refused, taken))) => {
                    mon.count_n("rejected_attempts:refused", refused);
                    mon.count_n("rejected_attempts:taken(not judged)", taken);
                    if taken == 0 && refused > 0 {
                        mon.nontrivial_str(&format!("{}|rejected|{:?}|{attempts}", set_key(&regs), order));
                        if o != base {
                            let what = if o.total != base.total { "total stake" } else if o.avk_bytes != base.avk_bytes { "aggregate key" } else { "signer slots" };
                            mon.violation(
                                &format!("C06 {what} depends on refused registration attempts"),
                                &format!("{what} differs between a history with {refused} refused re-registration attempt(s) of already registered keys and the plain registration of the same set (total stake {} vs {})", o.total, base.total),
                                json!({"set": set_key(&regs), "order": order, "base_avk": vcore::hex(&base.avk_bytes), "other_avk": vcore::hex(&o.avk_bytes), "base_total": base.total, "other_total": o.total}),
                            );
                        }
                    }
                }
                Ok(Err(e)) => mon.count(&format!("rejected_attempts:history_failed:{}", e.chars().take(40).collect::<String>())),
                Err(pn) => mon.violation("C06 registration panics", &pn, json!({"set": set_key(&regs), "order": order, "with": "refused attempts"})),
            }
        }
        // the key does not depend on the other protocol parameters (k, m) - only phi_f may enter
        // through closing (it does not for the concatenation key); same set, other k/m => same key
        {
            let p2 = Parameters { m: params.m + 7, k: params.k + 1, phi_f: params.phi_f };
            if let Ok(Ok(o)) = catch(|| observe_stm(&regs, &p2)) {
                mon.eval();
                if o.avk_bytes != base.avk_bytes {
                    mon.count("diag:avk_depends_on_k_m");
                }
            }
        }
        // neighbouring sets => different key
        let mut neighbours: Vec<(&str, Vec<Reg>)> = vec![];
        {
            let i = rnd::usize_below(&mut rng, n);
            let mut v = regs.clone();
            v[i].stake += 1;
            neighbours.push(("stake_plus_1", v));
            let mut v = regs.clone();
            if v[i].stake > 1 {
                v[i].stake -= 1;
                neighbours.push(("stake_minus_1", v));
            }
            let mut v = regs.clone();
            v.remove(i);
            if !v.is_empty() {
                neighbours.push(("party_removed", v));
            }
            let mut v = regs.clone();
            let extra = pool.iter().find(|k| !regs.iter().any(|r| r.vk == k.vk));
            if let Some(e) = extra {
                let mut e = e.clone();
                e.stake = regs[i].stake;
                v.push(e.clone());
                neighbours.push(("party_added", v));
                let mut v = regs.clone();
                e.stake = v[i].stake;
                v[i] = e;
                neighbours.push(("key_replaced", v));
            }
            if n >= 2 {
                let j = (i + 1) % n;
                if regs[i].stake != regs[j].stake {
                    let mut v = regs.clone();
                    let (a, b) = (v[i].stake, v[j].stake);
                    v[i].stake = b;
                    v[j].stake = a;
                    neighbours.push(("stakes_swapped", v));
                }
                // move one unit of stake between two parties (total unchanged)
                if regs[i].stake > 1 {
                    let mut v = regs.clone();
                    v[i].stake -= 1;
                    v[j].stake += 1;
                    neighbours.push(("stake_unit_moved", v));
                }
            }
        }
        for (name, v) in neighbours {
            mon.eval();
            mon.count(&format!("neighbour:{name}"));
            if let Ok(Ok(o)) = catch(|| observe_stm(&v, &params)) {
                if o.avk_bytes == base.avk_bytes {
                    mon.violation(
                        &format!("C06 distinct registration sets give the same aggregate key ({name})"),
                        "two different registration sets produce byte-identical aggregate verification keys",
                        json!({"set_a": set_key(&regs), "set_b": set_key(&v), "avk": vcore::hex(&base.avk_bytes)}),
                    );
                }
            }
            mon.nontrivial_str(&format!("{}|{}|{}", set_key(&regs), name, set_key(&v)));
        }
    }
}

fn to_stm_params(p: &ProtocolParameters) -> Parameters {
    Parameters { m: p.m, k: p.k, phi_f: p.phi_f }
}

fn signer_builder_avk(signers: &[SignerWithStake], pp: &ProtocolParameters) -> Result<AggregateVerificationKey<D>, String> {
    let b = SignerBuilder::new(signers, pp).map_err(|e| format!("{e:#}"))?;
    Ok(b.compute_aggregate_verification_key())
}

/// p2 / p3: through mithril-common with real KES-certified fixture signers
pub fn run_common_level(mon: &mut Monitor) {
    let mut rng = mon.rng("c06-common", 0);
    let fixtures = mon.tier.pick(6, 40);
    for f in 0..fixtures {
        let n = 2 + rnd::usize_below(&mut rng, 5);
        let pp = ProtocolParameters { k: 5, m: 100, phi_f: *rnd::pick(&mut rng, &[0.2, 0.65, 0.95]) };
        let method = if f % 2 == 0 {
            StakeDistributionGenerationMethod::Uniform(1 + rnd::below(&mut rng, 50))
        } else {
            let mut seed = [0u8; 32];
            rng.fill_bytes(&mut seed);
            StakeDistributionGenerationMethod::RandomDistribution { seed, min_stake: 1 }
        };
        let fixture = MithrilFixtureBuilder::default()
            .with_signers(n)
            .with_protocol_parameters(pp.clone())
            .with_stake_distribution(method)
            .build();
        let signers = fixture.signers_with_stake();
        mon.count("fixtures");
        // p1 on the same (vk, stake) pairs
        let regs: Vec<Reg> = signers
            .iter()
            .map(|s| {
                let vkpop: VerificationKeyProofOfPossessionForConcatenation = s.verification_key_for_concatenation.into_inner();
                Reg { vkpop, vk: vkpop.vk.to_bytes(), stake: s.stake }
            })
            .collect();
        let p1 = match catch(|| observe_stm(&regs, &to_stm_params(&pp))) {
            Ok(Ok(o)) => o,
            other => {
                mon.inconclusive(&format!("cannot compute the STM-level key for a fixture: {:?}", other.err()));
                continue;
            }
        };
        let base = match catch(|| signer_builder_avk(&signers, &pp)) {
            Ok(Ok(a)) => a,
            Ok(Err(e)) => {
                mon.violation("C06 SignerBuilder rejects an honest signer list", &e, json!({"parties": n}));
                continue;
            }
            Err(p) => {
                mon.violation("C06 SignerBuilder panics", &p, json!({"parties": n}));
                continue;
            }
        };
        mon.eval();
        if avk_bytes(&base) != p1.avk_bytes {
            mon.violation("C06 SignerBuilder and mithril-stm disagree on the aggregate key",
                "SignerBuilder::compute_aggregate_verification_key differs from KeyRegistration+Clerk over the same (key, stake) pairs",
                json!({"stm": vcore::hex(&p1.avk_bytes), "signer_builder": vcore::hex(&avk_bytes(&base))}));
        }
        if fixture.compute_aggregate_verification_key() != base {
            mon.violation("C06 fixture and SignerBuilder disagree on the aggregate key", "", json!({}));
        }
        if mon.wants_sample() {
            mon.sample(json!({"level": "common", "parties": n, "stakes": signers.iter().map(|s| s.stake).collect::<Vec<_>>(),
                "party_ids": signers.iter().map(|s| s.party_id.clone()).collect::<Vec<_>>(), "avk_hex": vcore::hex(&p1.avk_bytes)}));
        }
        // all permutations of the caller order (n <= 6)
        for p in rnd::permutations(n) {
            let permuted: Vec<SignerWithStake> = p.iter().map(|&i| signers[i].clone()).collect();
            mon.eval();
            match catch(|| signer_builder_avk(&permuted, &pp)) {
                Ok(Ok(a)) => {
                    if a != base {
                        mon.violation("C06 aggregate key depends on the registration order (SignerBuilder)",
                            "SignerBuilder gives different keys for two orders of the same signer list",
                            json!({"order": p, "party_ids": signers.iter().map(|s| s.party_id.clone()).collect::<Vec<_>>()}));
                    }
                }
                Ok(Err(e)) => mon.violation("C06 registration outcome depends on the order (SignerBuilder)", &e, json!({"order": p})),
                Err(pn) => mon.violation("C06 SignerBuilder panics", &pn, json!({"order": p})),
            }
            // p3: through the message part and JSON text
            let parts = SignerWithStakeMessagePart::from_signers(permuted.clone());
            let text = serde_json::to_string(&parts).unwrap();
            let back: Vec<SignerWithStakeMessagePart> = serde_json::from_str(&text).unwrap();
            mon.eval();
            match catch(|| SignerWithStakeMessagePart::try_into_signers(back).map_err(|e| format!("{e:#}")).and_then(|s| signer_builder_avk(&s, &pp))) {
                Ok(Ok(a)) => {
                    if a != base {
                        mon.violation("C06 aggregate key changes when signers go through their JSON message form",
                            "SignerWithStake -> message part -> JSON -> back gives a different aggregate key",
                            json!({"order": p, "json": text}));
                    }
                }
                Ok(Err(e)) => mon.violation("C06 signer list does not survive its JSON message form", &e, json!({"order": p})),
                Err(pn) => mon.violation("C06 signer JSON conversion panics", &pn, json!({"order": p})),
            }
            mon.nontrivial_str(&format!("common|{}|{:?}", f, p));
        }
        // key codecs
        {
            let key = ProtocolKey::new(base.to_concatenation_aggregate_verification_key().to_owned());
            mon.eval();
            let jh = key.to_json_hex().unwrap();
            let bh = key.to_bytes_hex().unwrap();
            let from_jh = ProtocolKey::<AggregateVerificationKeyForConcatenation<D>>::from_json_hex(&jh).map(|k| k.into_inner());
            let from_bh = ProtocolKey::<AggregateVerificationKeyForConcatenation<D>>::from_bytes_hex(&bh).map(|k| k.into_inner());
            let want = base.to_concatenation_aggregate_verification_key();
            if !matches!(&from_jh, Ok(k) if k == want) || !matches!(&from_bh, Ok(k) if k == want) {
                mon.violation("C06 aggregate key does not survive its hex codecs", "json-hex or bytes-hex round trip changes the key",
                    json!({"json_hex": jh, "bytes_hex": bh}));
            }
            // cross decoding through TryFrom<&str> (fallback path json-hex <-> bytes-hex)
            for s in [&jh, &bh] {
                let k: Result<ProtocolKey<AggregateVerificationKeyForConcatenation<D>>, _> = s.as_str().try_into();
                mon.eval();
                if !matches!(&k, Ok(k) if &**k == want) {
                    mon.violation("C06 aggregate key does not survive its hex codecs", "TryFrom<&str> changes the key", json!({"text": s}));
                }
            }
            mon.count("key_codec_round_trips");
        }
        // neighbours at this level: stake of one party changed
        {
            let mut v = signers.clone();
            v[0].stake += 1;
            mon.eval();
            if let Ok(Ok(a)) = catch(|| signer_builder_avk(&v, &pp)) {
                if a == base {
                    mon.violation("C06 distinct registration sets give the same aggregate key (stake_plus_1)", "SignerBuilder level", json!({}));
                }
            }
            let mut v = signers.clone();
            v.pop();
            mon.eval();
            let without_last = catch(|| signer_builder_avk(&v, &pp));
            if let Ok(Ok(a)) = &without_last {
                if *a == base {
                    mon.violation("C06 distinct registration sets give the same aggregate key (party_removed)", "SignerBuilder level", json!({}));
                }
            }
            // a registered party with stake 0 is still a member of the set: S with (key, 0) differs
            // from S without that party (and from S with the party's real stake)
            let mut v0 = signers.clone();
            let last = v0.len() - 1;
            v0[last].stake = 0;
            mon.eval();
            mon.count("neighbour:common_level_party_with_zero_stake");
            match catch(|| signer_builder_avk(&v0, &pp)) {
                Ok(Ok(a0)) => {
                    if a0 == base {
                        mon.violation("C06 distinct registration sets give the same aggregate key (stake_set_to_zero)", "SignerBuilder level", json!({}));
                    }
                    if let Ok(Ok(a)) = &without_last {
                        if *a == a0 {
                            mon.violation("C06 distinct registration sets give the same aggregate key (zero_stake_party_vs_party_absent)",
                                "SignerBuilder gives the same key for S + (key, stake 0) and for S without that party", json!({"parties": n}));
                        }
                    }
                    // and the same set through mithril-stm directly must agree with SignerBuilder
                    let mut regs0 = regs.clone();
                    if let Some(r) = regs0.iter_mut().find(|r| r.vk == v0[last].verification_key_for_concatenation.into_inner().vk.to_bytes()) {
                        r.stake = 0;
                    }
                    if let Ok(Ok(o)) = catch(|| observe_stm(&regs0, &to_stm_params(&pp))) {
                        if o.avk_bytes != avk_bytes(&a0) {
                            mon.violation("C06 SignerBuilder and mithril-stm disagree on the aggregate key",
                                "set containing a zero-stake party", json!({"stm": vcore::hex(&o.avk_bytes), "signer_builder": vcore::hex(&avk_bytes(&a0))}));
                        }
                    }
                }
                Ok(Err(_)) => mon.count("zero_stake_party_refused_by_signer_builder"),
                Err(p) => mon.violation("C06 SignerBuilder panics", &p, json!({"case": "zero stake party"})),
            }
        }
    }
}
