//! C08 — the signing lottery is exact, deterministic and monotone in stake.
//!
//! The eligibility source file of the WORKING TREE is compiled into this crate by path inclusion
//! (see main.rs: `mod eligibility`), so `is_lottery_won` below is the real function.
//! Pass 1 (Rust): generate cases, evaluate, append to a JSONL decision log; check determinism,
//! monotonicity chains, zero stake, phi = 1, and signer/verifier agreement end to end.
//! Pass 2 (Python, mpmath 600 bit, checkers/lottery_exact.py): judge every logged decision exactly.
use crate::eligibility::is_lottery_won;
use crate::world::World;
use mithril_stm::Parameters;
use num_bigint::BigUint;
use num_traits::One;
use rand_chacha::ChaCha20Rng;
use rand_core::RngCore;
use serde_json::{json, Value};
use std::io::Write;
use vcore::rnd;
use vcore::{catch, Monitor};

pub struct Case {
    pub phi: f64,
    pub ev: [u8; 64],
    pub stake: u64,
    pub total: u64,
    pub tag: &'static str,
}

fn ev_from_p(p: f64, rng: &mut ChaCha20Rng) -> [u8; 64] {
    // p in [0,1): p * 2^512 with the bits below f64 precision filled randomly
    let p = p.clamp(0.0, 1.0 - f64::EPSILON);
    let bits = p.to_bits();
    let exp = ((bits >> 52) & 0x7ff) as i64;
    let frac = bits & ((1u64 << 52) - 1);
    let mut out = [0u8; 64];
    if p == 0.0 {
        rng.fill_bytes(&mut out[..32]);
        return out;
    }
    let (mant, e2) = if exp == 0 { (frac, -1074i64) } else { (frac | (1u64 << 52), exp - 1075) };
    // value = mant * 2^(e2 + 512)
    let shift = e2 + 512;
    let mut v = BigUint::from(mant);
    if shift >= 0 {
        v <<= shift as usize;
        // random low bits
        if shift > 0 {
            let mut low = vec![0u8; (shift as usize).div_ceil(8)];
            rng.fill_bytes(&mut low);
            let lowv = BigUint::from_bytes_le(&low) & ((BigUint::one() << shift as usize) - BigUint::one());
            v += lowv;
        }
    } else {
        v >>= (-shift) as usize;
    }
    let b = v.to_bytes_le();
    let n = b.len().min(64);
    out[..n].copy_from_slice(&b[..n]);
    out
}

fn thr_f64(phi: f64, stake: u64, total: u64) -> f64 {
    if phi >= 1.0 {
        return 1.0;
    }
    let w = stake as f64 / total as f64;
    -(w * (-phi).ln_1p()).exp_m1() // 1 - (1-phi)^w
}

fn phis(rng: &mut ChaCha20Rng) -> Vec<f64> {
    let mut v = vec![
        0.2, // production
        0.05, 0.5, 0.65, 0.75, 0.8, 0.85, 0.9, 0.95, 0.99, 0.999999, 1.0,
        f64::from_bits(1.0f64.to_bits() - 1), // 1 - 2^-53
        f64::from_bits(1.0f64.to_bits() - 2), // 1 - 2^-52
        2f64.powi(-52), 2f64.powi(-30), 1e-9, 1e-3,
    ];
    for _ in 0..6 {
        v.push(rnd::f64_unit(rng).max(1e-12));
    }
    v
}

fn stakes_totals(rng: &mut ChaCha20Rng) -> Vec<(u64, u64)> {
    let mut v = vec![];
    for total in [1u64, 2, 3, 10, 1000, 45_000_000_000_000_000, u64::MAX, 1 + rng.next_u64() % 1_000_000, rng.next_u64().max(2)] {
        for stake in [0u64, 1, total / 2, total.saturating_sub(1), total, rnd::range(rng, 0, total)] {
            if stake <= total {
                v.push((stake, total));
            }
        }
    }
    v
}

pub fn gen_cases(rng: &mut ChaCha20Rng, per_combo_uniform: usize, near_js: &[i32]) -> Vec<Case> {
    let mut out = vec![];
    for phi in phis(rng) {
        for (stake, total) in stakes_totals(rng) {
            for _ in 0..per_combo_uniform {
                let mut ev = [0u8; 64];
                rng.fill_bytes(&mut ev);
                out.push(Case { phi, ev, stake, total, tag: "uniform" });
            }
            let thr = thr_f64(phi, stake, total);
            if thr > 0.0 && thr <= 1.0 {
                for &j in near_js {
                    let d = 2f64.powi(-j);
                    for sgn in [-1.0, 1.0] {
                        let p = thr * (1.0 + sgn * d);
                        if (0.0..1.0).contains(&p) {
                            out.push(Case { phi, ev: ev_from_p(p, rng), stake, total, tag: "near_threshold" });
                        }
                    }
                }
                // a handful spread just below the threshold (where a too-early series cut-off shows)
                for f in [0.999, 0.99, 0.97, 0.9, 0.8] {
                    out.push(Case { phi, ev: ev_from_p(thr * f, rng), stake, total, tag: "below_threshold" });
                }
            }
            // extremes of the draw
            out.push(Case { phi, ev: [0u8; 64], stake, total, tag: "draw_zero" });
            out.push(Case { phi, ev: [0xffu8; 64], stake, total, tag: "draw_max" });
        }
    }
    out
}

pub fn run(mon: &mut Monitor, log_path: &std::path::Path) -> std::io::Result<u64> {
    let mut rng = mon.rng("c08", 0);
    let (uniform, near): (usize, Vec<i32>) = match mon.tier {
        vcore::Tier::Quick => (2, vec![8, 16, 24, 32, 39]),
        vcore::Tier::Thorough => (40, (8..=39).collect()),
    };
    let rounds = mon.tier.pick(1, 6);
    let mut f = std::io::BufWriter::new(std::fs::File::create(log_path)?);
    let mut logged = 0u64;
    for _ in 0..rounds {
        let cases = gen_cases(&mut rng, uniform, &near);
        // evaluate in parallel chunks
        let chunks: Vec<&[Case]> = cases.chunks(cases.len().div_ceil(16).max(1)).collect();
        let results: Vec<Vec<Result<bool, String>>> = std::thread::scope(|s| {
            let hs: Vec<_> = chunks
                .iter()
                .map(|ch| s.spawn(move || ch.iter().map(|c| catch(|| is_lottery_won(c.phi, c.ev, c.stake, c.total))).collect::<Vec<_>>()))
                .collect();
            hs.into_iter().map(|h| h.join().unwrap()).collect()
        });
        for (ch, rs) in chunks.iter().zip(results.iter()) {
            for (c, r) in ch.iter().zip(rs.iter()) {
                mon.eval();
                mon.count(&format!("cases:{}", c.tag));
                match r {
                    Ok(won) => {
                        // direct clauses of the statement
                        if c.stake == 0 && *won && c.phi < 1.0 {
                            let sig = if c.phi == f64::from_bits(1.0f64.to_bits() - 1) {
                                "C08 phi_f just below 1 treated as 1 (always won)"
                            } else {
                                "C08 zero stake wins"
                            };
                            mon.violation(sig, "is_lottery_won returned true for stake 0",
                                json!({"phi_bits": c.phi.to_bits(), "ev": vcore::hex(&c.ev), "stake": c.stake, "total": c.total}));
                        }
                        if c.phi == 1.0 && !*won {
                            mon.violation("C08 phi_f = 1 loses", "is_lottery_won returned false for phi_f = 1",
                                json!({"phi_bits": c.phi.to_bits(), "ev": vcore::hex(&c.ev), "stake": c.stake, "total": c.total}));
                        }
                        writeln!(f, "{}", json!({"phi_bits": c.phi.to_bits(), "ev": vcore::hex(&c.ev), "stake": c.stake, "total": c.total, "won": won, "tag": c.tag}))?;
                        logged += 1;
                        mon.nontrivial(&[&c.phi.to_bits().to_le_bytes()[..], &c.ev[..], &c.stake.to_le_bytes()[..], &c.total.to_le_bytes()[..]].concat());
                        if mon.wants_sample() && c.tag == "near_threshold" {
                            mon.sample(json!({"phi": c.phi, "ev_le_hex": vcore::hex(&c.ev), "stake": c.stake, "total": c.total, "won": won, "tag": c.tag}));
                        }
                    }
                    Err(p) => mon.violation("C08 lottery evaluation panics", &format!("is_lottery_won panicked: {p}"),
                        json!({"phi_bits": c.phi.to_bits(), "ev": vcore::hex(&c.ev), "stake": c.stake, "total": c.total})),
                }
            }
        }
        // determinism: re-evaluate a sample
        for c in cases.iter().step_by(17) {
            let a = is_lottery_won(c.phi, c.ev, c.stake, c.total);
            let b = is_lottery_won(c.phi, c.ev, c.stake, c.total);
            mon.eval();
            if a != b {
                mon.violation("C08 lottery not deterministic", "two evaluations of the same inputs differ",
                    json!({"phi_bits": c.phi.to_bits(), "ev": vcore::hex(&c.ev), "stake": c.stake, "total": c.total}));
            }
        }
        // purity: the decision is a function of its four inputs only, whatever the thread evaluated
        // just before. A call with the SAME (stake, total) and another phi_f (then another stake
        // and the same phi_f) is made right before the case is evaluated again; the second decision
        // must equal the first and is logged for the exact judge as well.
        for (ci, c) in cases.iter().enumerate().step_by(7) {
            if c.phi >= 1.0 {
                continue;
            }
            let first = is_lottery_won(c.phi, c.ev, c.stake, c.total);
            let other_phi = *rnd::pick(&mut rng, &[0.05f64, 0.2, 0.5, 0.8, 0.95, 0.999]);
            let other_phi = if other_phi == c.phi { 0.65 } else { other_phi };
            let disturb = if ci % 2 == 0 {
                is_lottery_won(other_phi, c.ev, c.stake, c.total)
            } else {
                is_lottery_won(c.phi, c.ev, c.stake / 2 + 1, c.total.max(c.stake / 2 + 1))
            };
            let _ = disturb;
            let again = is_lottery_won(c.phi, c.ev, c.stake, c.total);
            mon.eval();
            mon.count("cases:purity_re_evaluation_after_a_neighbouring_call");
            writeln!(f, "{}", json!({"phi_bits": c.phi.to_bits(), "ev": vcore::hex(&c.ev), "stake": c.stake, "total": c.total, "won": again, "tag": "after_neighbouring_call"}))?;
            logged += 1;
            if ci % 2 == 0 {
                // the disturbing call itself is a decision right after one with the same stake share
                writeln!(f, "{}", json!({"phi_bits": other_phi.to_bits(), "ev": vcore::hex(&c.ev), "stake": c.stake, "total": c.total, "won": disturb, "tag": "same_stake_share_other_phi_in_a_row"}))?;
                logged += 1;
            }
            if again != first {
                mon.violation("C08 decision depends on the call evaluated before (not a function of its inputs)",
                    "the same inputs give another decision after a call with the same stake share and another phi_f (or another stake) on the same thread",
                    json!({"phi_bits": c.phi.to_bits(), "ev": vcore::hex(&c.ev), "stake": c.stake, "total": c.total, "first": first, "again": again, "other_phi_bits": other_phi.to_bits()}));
            }
        }
        // monotonicity chains
        monotone_chains(mon, &mut rng);
    }
    f.flush()?;
    Ok(logged)
}

fn monotone_chains(mon: &mut Monitor, rng: &mut ChaCha20Rng) {
    let n_chains = mon.tier.pick(150, 1500);
    for _ in 0..n_chains {
        let phi = *rnd::pick(rng, &[0.05, 0.2, 0.5, 0.8, 0.95, 0.99, f64::from_bits(1.0f64.to_bits() - 2)]);
        let total = *rnd::pick(rng, &[10u64, 1000, 1 << 40, u64::MAX]);
        // same draw, increasing stake: never won -> lost
        let base = rnd::range(rng, 1, total);
        let thr = thr_f64(phi, base, total);
        let ev = ev_from_p(thr * (1.0 + (rnd::f64_unit(rng) - 0.5) * 0.2), rng);
        let mut stakes: Vec<u64> = (0..8).map(|_| rnd::range(rng, 0, total)).collect();
        stakes.push(base);
        stakes.push(base.saturating_sub(1));
        stakes.push(base.saturating_add(1).min(total));
        stakes.sort_unstable();
        let mut prev: Option<(u64, bool)> = None;
        for s in stakes {
            let w = is_lottery_won(phi, ev, s, total);
            mon.eval();
            if let Some((ps, pw)) = prev {
                if pw && !w {
                    mon.violation("C08 decision flips from won to lost when the stake grows",
                        &format!("won with stake {ps} but lost with stake {s}"),
                        json!({"phi_bits": phi.to_bits(), "ev": vcore::hex(&ev), "stake_lo": ps, "stake_hi": s, "total": total}));
                }
            }
            prev = Some((s, w));
        }
        // same stake, decreasing draw: never won -> lost ... i.e. increasing draw: never lost -> won
        let stake = base;
        let thr = thr_f64(phi, stake, total);
        let mut ps: Vec<f64> = (0..8).map(|_| (thr * (1.0 + (rnd::f64_unit(rng) - 0.5) * 0.5)).clamp(0.0, 0.999999)).collect();
        ps.sort_by(|a, b| a.partial_cmp(b).unwrap());
        let mut prev: Option<(f64, bool)> = None;
        for p in ps {
            // deterministic low bits so that ordering of p is the ordering of the draws
            let mut r0 = mon.rng("c08-low", 0);
            let ev = ev_from_p(p, &mut r0);
            let w = is_lottery_won(phi, ev, stake, total);
            mon.eval();
            if let Some((pp, pw)) = prev {
                if !pw && w && p > pp {
                    mon.violation("C08 decision flips from won to lost when the draw shrinks",
                        &format!("lost with draw {pp} but won with the larger draw {p}"),
                        json!({"phi_bits": phi.to_bits(), "p_lo": pp, "p_hi": p, "stake": stake, "total": total}));
                }
            }
            prev = Some((p, w));
        }
        mon.count("monotonicity_chains");
    }
}

/// signer / verifier agreement end to end through the public API
pub fn signer_verifier_agreement(mon: &mut Monitor) {
    let mut rng = mon.rng("c08-e2e", 0);
    let worlds = mon.tier.pick(12, 120);
    for _ in 0..worlds {
        let n = 1 + rnd::usize_below(&mut rng, 5);
        let m = 5 + rnd::below(&mut rng, 25);
        let phi = *rnd::pick(&mut rng, &[0.2, 0.5, 0.8, 0.95, 0.99]);
        let params = Parameters { m, k: 1, phi_f: phi };
        let stakes: Vec<u64> = (0..n).map(|_| 1 + rnd::below(&mut rng, 1000)).collect();
        let Some(w) = World::build(params, &stakes, &mut rng) else { continue };
        let msg = rnd::bytes(&mut rng, 16);
        for (i, s) in w.signers.iter().enumerate() {
            let Ok(sig) = s.create_single_signature(&msg) else {
                mon.count("e2e:signer_won_nothing");
                continue;
            };
            let honest = sig.get_concatenation_signature_indices();
            for idx in 0..m {
                let mut s2 = sig.clone();
                s2.set_concatenation_signature_indices(&[idx]);
                let ok = s2.verify(&w.params, &w.parties[i].vkpop.vk, &w.parties[i].stake, &w.avk, &msg).is_ok();
                mon.eval();
                if ok != honest.contains(&idx) {
                    mon.violation("C08 signer and verifier disagree on an index",
                        &format!("index {idx}: signer claims won={} but verifier says {}", honest.contains(&idx), ok),
                        json!({"world": crate::c01::world_desc(&w), "msg_hex": vcore::hex(&msg), "party": i, "index": idx}));
                }
            }
            mon.count("e2e:signatures_cross_checked");
        }
    }
}

pub fn judge_with_python(mon: &mut Monitor, log_path: &std::path::Path) {
    let script = vcore::verif_root().join("checkers").join("lottery_exact.py");
    let out = std::process::Command::new("python3-vt").arg(&script).arg(log_path).arg("16").output();
    let out = match out {
        Ok(o) if o.status.success() => o,
        Ok(o) => {
            mon.inconclusive(&format!("exact checker failed: {}", String::from_utf8_lossy(&o.stderr).chars().take(300).collect::<String>()));
            return;
        }
        Err(e) => {
            mon.inconclusive(&format!("cannot start python3-vt: {e}"));
            return;
        }
    };
    let v: Value = match serde_json::from_slice(&out.stdout) {
        Ok(v) => v,
        Err(e) => {
            mon.inconclusive(&format!("cannot parse the exact checker's verdict: {e}"));
            return;
        }
    };
    mon.count_n("exact:judged", v["judged"].as_u64().unwrap_or(0));
    mon.count_n("exact:agree", v["agree"].as_u64().unwrap_or(0));
    mon.count_n("exact:skipped_in_band(2^-40)", v["band"].as_u64().unwrap_or(0));
    mon.count_n("exact:disagree", v["disagree_total"].as_u64().unwrap_or(0));
    if let Some(cl) = v["classes"].as_object() {
        for (k, n) in cl {
            mon.count_n(&format!("exact:class:{k}"), n.as_u64().unwrap_or(0));
        }
    }
    if let Some(ds) = v["disagreements"].as_array() {
        // witnesses written by the checker (max 5 per class); the remaining ones of a class are
        // accounted for by the class counters above
        let mut seen: std::collections::BTreeMap<String, u64> = Default::default();
        for d in ds {
            let class = d["class"].as_str().unwrap_or("?").to_string();
            *seen.entry(class.clone()).or_insert(0) += 1;
            mon.violation(
                &format!("C08 {class}"),
                &format!("decision won={} but exact arithmetic says won={} (p={}, threshold={}, x={})",
                    d["case"]["won"], d["expected_won"], d["p"], d["threshold"], d["x"]),
                d.clone(),
            );
        }
    }
}
