//! G1 point arithmetic on compressed 48-byte signatures through blst's C API (harness side only;
//! used to build the algebraic "compensation" adversary of C01).
use blst::*;

pub fn decompress(b: &[u8]) -> Option<blst_p1> {
    if b.len() != 48 {
        return None;
    }
    unsafe {
        let mut aff = blst_p1_affine::default();
        if blst_p1_uncompress(&mut aff, b.as_ptr()) != BLST_ERROR::BLST_SUCCESS {
            return None;
        }
        let mut p = blst_p1::default();
        blst_p1_from_affine(&mut p, &aff);
        Some(p)
    }
}
pub fn compress(p: &blst_p1) -> [u8; 48] {
    let mut out = [0u8; 48];
    unsafe { blst_p1_compress(out.as_mut_ptr(), p) };
    out
}
pub fn add(a: &[u8], b: &[u8]) -> Option<[u8; 48]> {
    let pa = decompress(a)?;
    let pb = decompress(b)?;
    unsafe {
        let mut out = blst_p1::default();
        blst_p1_add_or_double(&mut out, &pa, &pb);
        Some(compress(&out))
    }
}
pub fn neg(a: &[u8]) -> Option<[u8; 48]> {
    let mut pa = decompress(a)?;
    unsafe {
        blst_p1_cneg(&mut pa, true);
    }
    Some(compress(&pa))
}
/// scalar (little-endian bytes, nbits significant) times point
pub fn mult(a: &[u8], scalar_le: &[u8], nbits: usize) -> Option<[u8; 48]> {
    let pa = decompress(a)?;
    unsafe {
        let mut out = blst_p1::default();
        blst_p1_mult(&mut out, &pa, scalar_le.as_ptr(), nbits);
        Some(compress(&out))
    }
}
/// sign `msgp` with a raw 32-byte secret key exactly as the library does (empty dst / aug)
pub fn sign(sk: &[u8; 32], msgp: &[u8]) -> Option<[u8; 48]> {
    let k = blst::min_sig::SecretKey::from_bytes(sk).ok()?;
    Some(k.sign(msgp, &[], &[]).to_bytes())
}
/// a pseudo-random G1 point: signature of `seed` under a key derived from `seed`
pub fn random_point(seed: &[u8]) -> [u8; 48] {
    let mut ikm = [7u8; 32];
    for (i, b) in seed.iter().enumerate() {
        ikm[i % 32] ^= *b;
    }
    let k = blst::min_sig::SecretKey::key_gen(&ikm, &[]).unwrap();
    k.sign(seed, &[], &[]).to_bytes()
}

/// a point of the curve E(Fp) that is NOT in the prime-order subgroup G1: a random curve point
/// multiplied by the group order r (what is left lives in the cofactor subgroup; pairings with
/// final exponentiation do not see it). None when the seed gives no such point.
pub fn small_order_point(seed: &[u8]) -> Option<[u8; 48]> {
    use blake2::{Blake2b512, Digest};
    // r, little endian
    const R_LE: [u8; 32] = [
        0x01, 0x00, 0x00, 0x00, 0xff, 0xff, 0xff, 0xff, 0xfe, 0x5b, 0xfe, 0xff, 0x02, 0xa4, 0xbd, 0x53, 0x05, 0xd8, 0xa1, 0x09, 0x08, 0xd8, 0x39, 0x33, 0x48, 0x7d,
        0x9d, 0x29, 0x53, 0xa7, 0xed, 0x73,
    ];
    for ctr in 0u32..64 {
        let mut x = [0u8; 48];
        for (i, chunk) in x.chunks_mut(32).enumerate() {
            let mut h = Blake2b512::new();
            h.update(b"small-order");
            h.update(seed);
            h.update(ctr.to_le_bytes());
            h.update([i as u8]);
            let d = h.finalize();
            chunk.copy_from_slice(&d[..chunk.len()]);
        }
        // compressed form: bit 7 set, not infinity, x below the field modulus (top nibble cleared)
        x[0] = 0x80 | (x[0] & 0x2f);
        let Some(p) = decompress(&x) else { continue };
        unsafe {
            let mut t = blst_p1::default();
            blst_p1_mult(&mut t, &p, R_LE.as_ptr(), 255);
            if blst_p1_is_inf(&t) || blst_p1_in_g1(&t) {
                continue;
            }
            return Some(compress(&t));
        }
    }
    None
}
