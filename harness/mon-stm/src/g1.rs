//! G1 point arithmetic on compressed 48-byte signatures through blst's C API (harness side only;
//! used to build the algebraic "compensation" adversary of C01).
use blst::*;

pub fn decompress(b: &[u8]) -> Option<blst_p1> {
    if b.len() != 48 {
        return None;
    }
    unsafe {
        let mut aff = blst_p1_affine::default();
        if blst_p1_uncompress(&mut aff, b.as_ptr()) != BLST_ERROR::BLST_SUCCESS {
            return None;
        }
        let mut p = blst_p1::default();
        blst_p1_from_affine(&mut p, &aff);
        Some(p)
    }
}
pub fn compress(p: &blst_p1) -> [u8; 48] {
    let mut out = [0u8; 48];
    unsafe { blst_p1_compress(out.as_mut_ptr(), p) };
    out
}
pub fn add(a: &[u8], b: &[u8]) -> Option<[u8; 48]> {
    let pa = decompress(a)?;
    let pb = decompress(b)?;
    unsafe {
        let mut out = blst_p1::default();
        blst_p1_add_or_double(&mut out, &pa, &pb);
        Some(compress(&out))
    }
}
pub fn neg(a: &[u8]) -> Option<[u8; 48]> {
    let mut pa = decompress(a)?;
    unsafe {
        blst_p1_cneg(&mut pa, true);
    }
    Some(compress(&pa))
}
/// scalar (little-endian bytes, nbits significant) times point
pub fn mult(a: &[u8], scalar_le: &[u8], nbits: usize) -> Option<[u8; 48]> {
    let pa = decompress(a)?;
    unsafe {
        let mut out = blst_p1::default();
        blst_p1_mult(&mut out, &pa, scalar_le.as_ptr(), nbits);
        Some(compress(&out))
    }
}
/// sign `msgp` with a raw 32-byte secret key exactly as the library does (empty dst / aug)
pub fn sign(sk: &[u8; 32], msgp: &[u8]) -> Option<[u8; 48]> {
    let k = blst::min_sig::SecretKey::from_bytes(sk).ok()?;
    Some(k.sign(msgp, &[], &[]).to_bytes())
}
/// a pseudo-random G1 point: signature of `seed` under a key derived from `seed`
pub fn random_point(seed: &[u8]) -> [u8; 48] {
    let mut ikm = [7u8; 32];
    for (i, b) in seed.iter().enumerate() {
        ikm[i % 32] ^= *b;
    }
    let k = blst::min_sig::SecretKey::key_gen(&ikm, &[]).unwrap();
    k.sign(seed, &[], &[]).to_bytes()
}
