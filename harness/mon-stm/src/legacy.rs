//! Encoder for the legacy (pre-CBOR) byte layout of aggregate signatures, written from the layout
//! the legacy *decoders* of the working tree read (the library no longer has an encoder for it).
use crate::refagg::RefAgg;

fn be(n: u64) -> [u8; 8] {
    n.to_be_bytes()
}

pub fn single_signature(indexes: &[u64], sigma: &[u8], signer_index: u64) -> Vec<u8> {
    let mut v = vec![];
    v.extend_from_slice(&be(indexes.len() as u64));
    for i in indexes {
        v.extend_from_slice(&be(*i));
    }
    v.extend_from_slice(sigma);
    v.extend_from_slice(&be(signer_index));
    v
}

pub fn reg_party(vk: &[u8], stake: u64) -> Vec<u8> {
    let mut v = vk.to_vec();
    v.extend_from_slice(&be(stake));
    v
}

pub fn sig_with_party(indexes: &[u64], sigma: &[u8], signer_index: u64, vk: &[u8], stake: u64) -> Vec<u8> {
    let rp = reg_party(vk, stake);
    let s = single_signature(indexes, sigma, signer_index);
    let mut v = vec![];
    v.extend_from_slice(&be(rp.len() as u64));
    v.extend_from_slice(&rp);
    v.extend_from_slice(&be(s.len() as u64));
    v.extend_from_slice(&s);
    v
}

pub fn batch_path(values: &[Vec<u8>], indices: &[u64]) -> Vec<u8> {
    let mut v = vec![];
    v.extend_from_slice(&be(values.len() as u64));
    v.extend_from_slice(&be(indices.len() as u64));
    for x in values {
        v.extend_from_slice(x);
    }
    for i in indices {
        v.extend_from_slice(&be(*i));
    }
    v
}

/// None when the value cannot be represented in the legacy layout (path values must be 32 bytes)
pub fn aggregate(a: &RefAgg) -> Option<Vec<u8>> {
    if a.path_values.iter().any(|v| v.len() != 32) || a.sigs.iter().any(|s| s.sigma.len() != 48 || s.vk.len() != 96) {
        return None;
    }
    let mut v = vec![0u8]; // proof system prefix: concatenation
    v.extend_from_slice(&be(a.sigs.len() as u64));
    for s in &a.sigs {
        let e = sig_with_party(&s.indexes, &s.sigma, s.signer_index, &s.vk, s.stake);
        v.extend_from_slice(&be(e.len() as u64));
        v.extend_from_slice(&e);
    }
    v.extend_from_slice(&batch_path(&a.path_values, &a.path_indices));
    Some(v)
}
