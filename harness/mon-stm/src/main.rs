// --- the eligibility function of the working tree, compiled in by path inclusion (C08) -----------
// The file expects the two cfg macros and the two type aliases of mithril-stm at its crate root.
macro_rules! cfg_num_integer {
    ($($item:item)*) => { $( $item )* };
}
macro_rules! cfg_rug {
    ($($item:item)*) => {};
}
pub type PhiFValue = f64;
pub type Stake = u64;
#[path = "/repo/mithril-stm/src/proof_system/concatenation/eligibility.rs"]
#[allow(dead_code, unused_imports)]
mod eligibility;
// -------------------------------------------------------------------------------------------------
mod c01;
mod c02;
mod c06;
mod c08;
mod g1;
mod legacy;
mod refagg;
mod reflot;
mod world;

use vcore::{Monitor, Tier};

fn main() {
    let args = vcore::parse_args();
    vcore::install_panic_hook();
    let mut mon = Monitor::new(&args);
    let threads = vcore::default_threads();
    match args.prop.as_str() {
        "C01" => {
            let (shards, per) = match args.tier {
                Tier::Quick => (16, 12),
                Tier::Thorough => (64, 40),
            };
            vcore::run_shards(&mut mon, shards, threads, |s, m| c01::run_shard(s, m, per));
            mon.finish(
                "worlds = random registrations (1-12 parties, 5 stake profiles incl. 2^62-vs-1 and zero stakes) x params (m<=40,k<=12,phi in {.05,.2,.5,.8,.95,1}) x 2 messages; candidates = every structural mutator of c01.rs applied to the JSON wire value of the honest aggregate, each pushed through JSON/CBOR/legacy decoders; batches = honest members + one member rejected alone at every position, and the cross-member sigma compensation pair. A case is non-trivial when the independent reference rule rejects it (so an acceptance would be a violation); distinct = distinct (mutator, wire value).",
                &["blst, blake2 as reference primitives", "reference lottery: f64 logarithm interval test, draws within 1e-9 relative of the threshold are skipped (Band)", "BLS unforgeability / hash collision resistance not attacked"],
                50,
            );
        }
        "C02" => {
            let (shards, per) = match args.tier {
                Tier::Quick => (16, 6),
                Tier::Thorough => (48, 20),
            };
            vcore::run_shards(&mut mon, shards, threads, |s, m| c02::run_shard(s, m, per));
            mon.finish(
                "worlds = random registrations (1-8 parties, 5 stake profiles) x params (m<=31,k<=10,phi in {.2,.5,.8,.95,1}); base sets = whole honest signature set and a random subset, all permutations when |S|<=5; extra material = exact duplicates (1-3 copies, whole set twice), same-sigma copies with restricted / reordered index lists, same sigma under another or an unregistered slot, corrupted sigma (on-curve), foreign sigma, unwon-index superset, signatures on 1-3 other messages, signatures of another registration; placed after / before / interleaved / permuted (all permutations when |S|<=5). Non-trivial = multiset with extra material; distinct = distinct ordered multiset of (tag, signature).",
                &["validity of a single signature = public SingleSignature::verify under the key registered at the slot the signature names, honest ones cross-checked with blst directly", "BLS unforgeability not attacked"],
                50,
            );
        }
        "C06" => {
            let (shards, per) = match args.tier {
                Tier::Quick => (16, 6),
                Tier::Thorough => (48, 20),
            };
            vcore::run_shards(&mut mon, shards, threads, |s, m| c06::run_stm_level(s, m, per));
            c06::run_common_level(&mut mon);
            mon.finish(
                "registration sets: 2-40 parties drawn from a key pool preferring keys that share leading bytes, stake profiles with many ties; all n! registration orders for n<=6, random orders above; paths: mithril-stm KeyRegistration+Clerk, mithril-common SignerBuilder over KES-certified fixture signers, the same after SignerWithStake -> message part -> JSON text -> back, key through json-hex / bytes-hex / TryFrom<&str>; observations (key bytes, total stake, slot of every party) must be equal for one set; neighbouring sets (stake +-1, party added/removed, key replaced, stakes swapped, unit of stake moved) must give a different key. Non-trivial = a permuted order or a neighbour set; distinct = distinct (set, order) / (set, neighbour).",
                &["hash collision resistance of Blake2b", "the client's compute_mithril_stake_distribution_message path is exercised by the C11/C06 part of mon-client"],
                50,
            );
        }
        "C08" => {
            let log = std::env::temp_dir().join(format!("verif-c08-{}-{}.jsonl", std::process::id(), args.seed));
            match c08::run(&mut mon, &log) {
                Ok(n) => mon.count_n("decisions_logged", n),
                Err(e) => mon.inconclusive(&format!("cannot write the decision log: {e}")),
            }
            c08::signer_verifier_agreement(&mut mon);
            c08::judge_with_python(&mut mon, &log);
            let _ = std::fs::remove_file(&log);
            mon.finish(
                "decisions of the real is_lottery_won (eligibility.rs of the working tree, path-included) over phi in {production 0.2, test-suite values, 2^-52..1-2^-53, 1, random} x (stake,total) in {0,1,half,total-1,total,random} x totals up to 2^64-1 x draws {uniform, threshold*(1 +- 2^-j) for j in 8..39, fractions just below the threshold, all-zero, all-ones}; every decision is logged and judged offline by checkers/lottery_exact.py (mpmath, 600 bit): outside the 2^-40 band decision == (p < 1-(1-phi)^(stake/total)). Plus determinism, monotonicity chains (stake up / draw down), stake 0, phi 1, and signer/verifier agreement per index through the public API. Non-trivial = every logged decision (distinct inputs).",
                &["mpmath as exact reference", "band |p - threshold| <= 2^-40 skipped (absorbs the f64 rounding of ln(1-phi) inside the implementation)", "rug backend not compiled in this workspace, not judged"],
                1000,
            );
        }
        other => {
            eprintln!("mon-stm: unknown property {other}");
            std::process::exit(2);
        }
    }
}
