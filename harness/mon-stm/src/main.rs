mod c01;
mod c02;
mod g1;
mod legacy;
mod refagg;
mod reflot;
mod world;

use vcore::{Monitor, Tier};

fn main() {
    let args = vcore::parse_args();
    vcore::install_panic_hook();
    let mut mon = Monitor::new(&args);
    let threads = vcore::default_threads();
    match args.prop.as_str() {
        "C01" => {
            let (shards, per) = match args.tier {
                Tier::Quick => (16, 12),
                Tier::Thorough => (64, 40),
            };
            vcore::run_shards(&mut mon, shards, threads, |s, m| c01::run_shard(s, m, per));
            mon.finish(
                "worlds = random registrations (1-12 parties, 5 stake profiles incl. 2^62-vs-1 and zero stakes) x params (m<=40,k<=12,phi in {.05,.2,.5,.8,.95,1}) x 2 messages; candidates = every structural mutator of c01.rs applied to the JSON wire value of the honest aggregate, each pushed through JSON/CBOR/legacy decoders; batches = honest members + one member rejected alone at every position, and the cross-member sigma compensation pair. A case is non-trivial when the independent reference rule rejects it (so an acceptance would be a violation); distinct = distinct (mutator, wire value).",
                &["blst, blake2 as reference primitives", "reference lottery: f64 logarithm interval test, draws within 1e-9 relative of the threshold are skipped (Band)", "BLS unforgeability / hash collision resistance not attacked"],
                50,
            );
        }
        "C02" => {
            let (shards, per) = match args.tier {
                Tier::Quick => (16, 6),
                Tier::Thorough => (64, 60),
            };
            vcore::run_shards(&mut mon, shards, threads, |s, m| c02::run_shard(s, m, per));
            mon.finish(
                "worlds = random registrations (1-8 parties, 5 stake profiles) x params (m<=31,k<=10,phi in {.2,.5,.8,.95,1}); base sets = whole honest signature set and a random subset, all permutations when |S|<=5; extra material = exact duplicates (1-3 copies, whole set twice), same-sigma copies with restricted / reordered index lists, same sigma under another or an unregistered slot, corrupted sigma (on-curve), foreign sigma, unwon-index superset, signatures on 1-3 other messages, signatures of another registration; placed after / before / interleaved / permuted (all permutations when |S|<=5). Non-trivial = multiset with extra material; distinct = distinct ordered multiset of (tag, signature).",
                &["validity of a single signature = public SingleSignature::verify under the key registered at the slot the signature names, honest ones cross-checked with blst directly", "BLS unforgeability not attacked"],
                50,
            );
        }
        other => {
            eprintln!("mon-stm: unknown property {other}");
            std::process::exit(2);
        }
    }
}
