//! C01 reference acceptance rule, written from the property text with primitives only
//! (blst, blake2, the reference lottery).  It reads the *decoded* aggregate through its serde
//! (JSON) view, i.e. exactly the content `verify` is looking at.
use crate::reflot;
use crate::world::World;
use blake2::{Blake2b512, Digest};
use serde_json::Value;
use std::collections::HashSet;

#[derive(Clone, Debug)]
pub struct RefSig {
    pub sigma: Vec<u8>,
    pub indexes: Vec<u64>,
    pub signer_index: u64,
    pub vk: Vec<u8>,
    pub stake: u64,
}

#[derive(Clone, Debug)]
pub struct RefAgg {
    pub sigs: Vec<RefSig>,
    pub path_values: Vec<Vec<u8>>,
    pub path_indices: Vec<u64>,
}

pub fn bytes_of(v: &Value) -> Vec<u8> {
    v.as_array().map(|a| a.iter().map(|x| x.as_u64().unwrap_or(0) as u8).collect()).unwrap_or_default()
}

pub fn parse(j: &Value) -> Option<RefAgg> {
    let mut sigs = vec![];
    for e in j.get("signatures")?.as_array()? {
        let pair = e.as_array()?;
        let s = pair.first()?;
        let r = pair.get(1)?.as_array()?;
        sigs.push(RefSig {
            sigma: bytes_of(s.get("sigma")?),
            indexes: s.get("indexes")?.as_array()?.iter().map(|x| x.as_u64().unwrap_or(u64::MAX)).collect(),
            signer_index: s.get("signer_index")?.as_u64()?,
            vk: bytes_of(r.first()?),
            stake: r.get(1)?.as_u64()?,
        });
    }
    let bp = j.get("batch_proof")?;
    Some(RefAgg {
        sigs,
        path_values: bp.get("values")?.as_array()?.iter().map(bytes_of).collect(),
        path_indices: bp.get("indices")?.as_array()?.iter().map(|x| x.as_u64().unwrap_or(u64::MAX)).collect(),
    })
}

pub fn draw(msgp: &[u8], index: u64, sigma: &[u8]) -> [u8; 64] {
    let h = Blake2b512::new()
        .chain_update(b"map")
        .chain_update(msgp)
        .chain_update(index.to_le_bytes())
        .chain_update(sigma)
        .finalize();
    let mut out = [0u8; 64];
    out.copy_from_slice(&h);
    out
}

pub fn bls_verify(sigma: &[u8], vk: &[u8], msgp: &[u8]) -> bool {
    let Ok(sig) = blst::min_sig::Signature::sig_validate(sigma, true) else { return false };
    let Ok(pk) = blst::min_sig::PublicKey::key_validate(vk) else { return false };
    sig.verify(true, msgp, &[], &[], &pk, true) == blst::BLST_ERROR::BLST_SUCCESS
}

pub enum RefVerdict {
    Accept,
    Reject(&'static str, String),
    /// some lottery draw fell in the undecidable band: no verdict
    Band,
}

/// The acceptance rule of the statement.
pub fn reference(a: &RefAgg, w: &World, msg: &[u8]) -> RefVerdict {
    let msgp = w.msgp(msg);
    let mut seen = HashSet::new();
    let mut count = 0u64;
    let mut band = false;
    for s in &a.sigs {
        // (4) claimed (vk, stake) is a registered pair
        if !w.is_registered(&s.vk, s.stake) {
            return RefVerdict::Reject("party-not-registered", format!("(vk,stake={}) not in the registered set", s.stake));
        }
        for &i in &s.indexes {
            // (1) bound
            if i >= w.params.m {
                return RefVerdict::Reject("index-out-of-range", format!("index {} outside [0,{})", i, w.params.m));
            }
            // (2) distinct
            if !seen.insert(i) {
                return RefVerdict::Reject("index-repeated", format!("index {} repeated", i));
            }
            count += 1;
            // (5) genuinely won
            let ev = draw(&msgp, i, &s.sigma);
            match reflot::won_f64(w.params.phi_f, &ev, s.stake, w.total_stake) {
                Some(true) => {}
                Some(false) => return RefVerdict::Reject("index-not-won", format!("index {} not won by stake {}", i, s.stake)),
                None => band = true,
            }
        }
        // (6) signature valid for msg||root under the claimed key
        if !bls_verify(&s.sigma, &s.vk, &msgp) {
            return RefVerdict::Reject("sigma-invalid", "sigma does not verify under the claimed key".into());
        }
    }
    // (3) quorum
    if count < w.params.k {
        return RefVerdict::Reject("below-quorum", format!("{} indices < k={}", count, w.params.k));
    }
    if band {
        return RefVerdict::Band;
    }
    RefVerdict::Accept
}
