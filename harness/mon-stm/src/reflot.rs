//! Reference lottery decisions, independent of the Taylor/bigint implementation under test.
//!
//! `won_f64`: interval decision in f64 via logarithms:  p < 1-(1-phi)^w  <=>  w*ln(1-phi) < ln(1-p).
//! Returns None inside a relative band (1e-9) around equality, where f64 cannot decide.
//! `won_exact_small`: exact integer comparison a^s * 2^(512 t) < b^t * 2^(e s), usable when the
//! total stake is small; used to cross-check the interval decision.
use num_bigint::BigUint;
use num_traits::One;

/// p as f64 from the 64-byte little-endian draw (top 53 bits are enough for the band we use)
fn p_of(ev: &[u8; 64]) -> f64 {
    // most significant 8 bytes are the last ones (little endian)
    let mut hi = [0u8; 8];
    hi.copy_from_slice(&ev[56..64]);
    let top = u64::from_le_bytes(hi);
    let mut lo = [0u8; 8];
    lo.copy_from_slice(&ev[48..56]);
    let next = u64::from_le_bytes(lo);
    (top as f64) / 18446744073709551616.0 + (next as f64) / 18446744073709551616.0 / 18446744073709551616.0
}

pub fn won_f64(phi: f64, ev: &[u8; 64], stake: u64, total: u64) -> Option<bool> {
    if phi >= 1.0 {
        return Some(true);
    }
    if stake == 0 {
        return Some(false);
    }
    let p = p_of(ev);
    let w = stake as f64 / total as f64;
    let lhs = w * (-phi).ln_1p(); // w*ln(1-phi)  (negative)
    let rhs = (-p).ln_1p(); // ln(1-p)       (negative or -inf)
    if rhs == f64::NEG_INFINITY {
        return Some(false);
    }
    let scale = lhs.abs() + rhs.abs() + 1e-300;
    if (lhs - rhs).abs() <= 1e-9 * scale {
        return None;
    }
    Some(lhs < rhs)
}

/// exact decision; only call with small `total` (<= 4096)
pub fn won_exact_small(phi: f64, ev: &[u8; 64], stake: u64, total: u64) -> bool {
    if phi >= 1.0 {
        return true;
    }
    if stake == 0 {
        return false;
    }
    // 1-phi as exact dyadic a / 2^e  (computed exactly from the f64 bits of 1.0 - phi, which is how
    // the implementation forms it as well; 1.0-phi is exact for phi in [0.5,1] and correctly rounded
    // otherwise - the band logic of the caller absorbs that)
    let one_minus = 1.0 - phi;
    let bits = one_minus.to_bits();
    let exp = ((bits >> 52) & 0x7ff) as i64;
    let frac = bits & ((1u64 << 52) - 1);
    let (mant, e2) = if exp == 0 { (frac, -1074i64) } else { (frac | (1u64 << 52), exp - 1075) };
    // one_minus = mant * 2^e2, e2 negative here since one_minus < 1
    let e = (-e2) as u64;
    let a = BigUint::from(mant);
    let two512 = BigUint::one() << 512usize;
    let b = &two512 - BigUint::from_bytes_le(ev);
    // a^s * 2^(512 t) < b^t * 2^(e s)
    let lhs = a.pow(stake as u32) << (512 * total as usize);
    let rhs = b.pow(total as u32) << ((e * stake) as usize);
    lhs < rhs
}
