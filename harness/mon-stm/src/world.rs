//! Honest STM worlds: a closed registration with its signers, built through the public API of the
//! working tree, plus the raw material the oracles need (secret keys, key bytes, stakes, root).
use mithril_stm::*;
use rand_chacha::ChaCha20Rng;
use rand_core::RngCore;
use serde_json::Value;

pub type D = MithrilMembershipDigest;

pub struct Party {
    pub stake: u64,
    pub sk: [u8; 32],
    pub vk: [u8; 96],
    pub pop: [u8; 96],
    pub vkpop: VerificationKeyProofOfPossessionForConcatenation,
    /// slot in the closed registration
    pub slot: u64,
}

pub struct World {
    pub params: Parameters,
    pub parties: Vec<Party>,
    pub closed: ClosedKeyRegistration,
    pub signers: Vec<Signer<D>>,
    pub clerk: Clerk<D>,
    pub avk: AggregateVerificationKey<D>,
    pub root: Vec<u8>,
    pub nr_leaves: u64,
    pub total_stake: u64,
}

fn bytes_of(v: &Value) -> Vec<u8> {
    v.as_array().map(|a| a.iter().map(|x| x.as_u64().unwrap_or(0) as u8).collect()).unwrap_or_default()
}

pub fn no_ancillary() -> AncillaryProofInput {
    AncillaryProofInput::new(None, AncillaryGenesisData::new())
}

impl World {
    /// Build a world; None when the registration cannot be closed (e.g. total stake 0 / overflow).
    pub fn build(params: Parameters, stakes: &[u64], rng: &mut ChaCha20Rng) -> Option<World> {
        let mut kr = KeyRegistration::initialize();
        let mut inits = vec![];
        for &s in stakes {
            let p = Initializer::new(params, s, rng);
            let e = RegistrationEntry::new(p.get_verification_key_proof_of_possession_for_concatenation(), s).ok()?;
            kr.register_by_entry(&e).ok()?;
            inits.push(p);
        }
        let closed = kr.close_registration(&params).ok()?;
        let mut parties = vec![];
        let mut signers = vec![];
        for p in inits {
            let j = serde_json::to_value(&p).unwrap();
            let sk: [u8; 32] = bytes_of(&j["sk"]).try_into().unwrap();
            let vk: [u8; 96] = bytes_of(&j["pk"]["vk"]).try_into().unwrap();
            let pop: [u8; 96] = bytes_of(&j["pk"]["pop"]).try_into().unwrap();
            let vkpop = p.get_verification_key_proof_of_possession_for_concatenation();
            let stake = p.stake;
            let signer: Signer<D> = p.try_create_signer(&closed).ok()?;
            let slot = closed
                .closed_registration_entries
                .iter()
                .position(|e| e.get_verification_key_for_concatenation().to_bytes() == vk)
                .unwrap() as u64;
            parties.push(Party { stake, sk, vk, pop, vkpop, slot });
            signers.push(signer);
        }
        let clerk = Clerk::new_clerk_from_closed_key_registration(&params, &closed);
        let avk = clerk.compute_aggregate_verification_key();
        let j = serde_json::to_value(avk.to_concatenation_aggregate_verification_key()).unwrap();
        let root = bytes_of(&j["mt_commitment"]["root"]);
        let nr_leaves = j["mt_commitment"]["nr_leaves"].as_u64().unwrap();
        let total_stake = j["total_stake"].as_u64().unwrap();
        Some(World { params, parties, closed, signers, clerk, avk, root, nr_leaves, total_stake })
    }

    pub fn sign_all(&self, msg: &[u8]) -> Vec<SingleSignature> {
        self.signers.iter().filter_map(|s| s.create_single_signature(msg).ok()).collect()
    }

    pub fn aggregate(&self, sigs: &[SingleSignature], msg: &[u8]) -> StmResult<AggregateSignature<D>> {
        self.clerk
            .aggregate_signatures_with_type(sigs, msg, AggregateSignatureType::Concatenation, no_ancillary())
            .map(|(a, _)| a)
    }

    pub fn verify(&self, agg: &AggregateSignature<D>, msg: &[u8]) -> StmResult<()> {
        agg.verify(msg, &self.avk, &self.params, None, None)
    }

    /// msg || root : what BLS actually signs
    pub fn msgp(&self, msg: &[u8]) -> Vec<u8> {
        let mut v = msg.to_vec();
        v.extend_from_slice(&self.root);
        v
    }

    pub fn is_registered(&self, vk: &[u8], stake: u64) -> bool {
        self.parties.iter().any(|p| p.vk[..] == *vk && p.stake == stake)
    }
}

pub const PHIS: [f64; 6] = [0.05, 0.2, 0.5, 0.8, 0.95, 1.0];

/// stake profiles of the design: equal, geometric, whale, zeros mixed in
pub fn stake_profile(kind: u64, n: usize, rng: &mut ChaCha20Rng) -> Vec<u64> {
    match kind % 5 {
        0 => vec![1 + rng.next_u64() % 5; n],
        1 => (0..n).map(|i| 1u64 << (i as u32 % 40)).collect(),
        2 => {
            let mut v = vec![1u64; n];
            v[0] = 1u64 << 62;
            v
        }
        3 => (0..n).map(|i| if i % 2 == 1 { 0 } else { 1 + rng.next_u64() % 1000 }).collect(),
        _ => (0..n).map(|_| 1 + rng.next_u64() % 10_000).collect(),
    }
}
