//! Global allocator of mon-wire: vcore's counting allocator (peak single request per thread,
//! refusal above 1 GiB with a marker line) plus one thing vcore does not do: when a request is about
//! to be refused, the call site (first frame inside a mithril crate) is written to the marker fd as
//! `ALLOCSITE <symbol>`, so that an abort can be attributed to a function of the repository.
use std::alloc::{GlobalAlloc, Layout};
use std::cell::Cell;
use std::sync::atomic::Ordering;
use vcore::alloc::{Counting, MARKER_FD, REFUSE_ABOVE};

pub struct Tracing;

thread_local! {
    static IN_NOTE: Cell<bool> = const { Cell::new(false) };
}

extern "C" {
    fn write(fd: i32, buf: *const u8, count: usize) -> isize;
}

/// first frame that belongs to a crate of the repository
pub fn repo_frame(bt: &str) -> Option<String> {
    for line in bt.lines() {
        let l = line.trim();
        // "12: mithril_stm::...::from_bytes_legacy"
        let Some((n, sym)) = l.split_once(": ") else { continue };
        if n.is_empty() || !n.chars().all(|c| c.is_ascii_digit()) {
            continue;
        }
        if (sym.contains("mithril_") || sym.contains("kes_summed")) && !sym.contains("mon_wire") {
            return Some(sym.to_string());
        }
    }
    None
}

fn note_site(size: usize) {
    let fd = MARKER_FD.load(Ordering::Relaxed);
    if fd == 0 {
        return;
    }
    let entered = IN_NOTE.try_with(|f| f.replace(true)).unwrap_or(true);
    if entered {
        return;
    }
    let bt = std::backtrace::Backtrace::force_capture().to_string();
    let sym = repo_frame(&bt).unwrap_or_else(|| "?".into());
    let line = format!("ALLOCSITE {size} {sym}\n");
    unsafe {
        write(fd as i32, line.as_ptr(), line.len());
    }
    let _ = IN_NOTE.try_with(|f| f.set(false));
}

unsafe impl GlobalAlloc for Tracing {
    unsafe fn alloc(&self, layout: Layout) -> *mut u8 {
        if layout.size() > BIG {
            if layout.size() > REFUSE_ABOVE.load(Ordering::Relaxed) {
                note_site(layout.size());
            } else {
                note_big(layout.size());
            }
        }
        Counting.alloc(layout)
    }
    unsafe fn dealloc(&self, ptr: *mut u8, layout: Layout) {
        Counting.dealloc(ptr, layout)
    }
    unsafe fn alloc_zeroed(&self, layout: Layout) -> *mut u8 {
        if layout.size() > BIG {
            if layout.size() > REFUSE_ABOVE.load(Ordering::Relaxed) {
                note_site(layout.size());
            } else {
                note_big(layout.size());
            }
        }
        Counting.alloc_zeroed(layout)
    }
    unsafe fn realloc(&self, ptr: *mut u8, layout: Layout, new_size: usize) -> *mut u8 {
        if new_size > BIG {
            if new_size > REFUSE_ABOVE.load(Ordering::Relaxed) {
                note_site(new_size);
            } else {
                note_big(new_size);
            }
        }
        Counting.realloc(ptr, layout, new_size)
    }
}

thread_local! {
    static LAST_BIG: std::cell::RefCell<Option<(usize, String)>> = const { std::cell::RefCell::new(None) };
}

/// requests above this size get their call site remembered (thread local), for the
/// "allocation out of proportion" report
pub const BIG: usize = 16 << 20;

pub fn note_big(size: usize) {
    let entered = IN_NOTE.try_with(|f| f.replace(true)).unwrap_or(true);
    if entered {
        return;
    }
    let bt = std::backtrace::Backtrace::force_capture().to_string();
    let sym = repo_frame(&bt).unwrap_or_else(|| "?".into());
    let _ = LAST_BIG.try_with(|l| {
        let mut l = l.borrow_mut();
        if l.as_ref().map(|(s, _)| *s < size).unwrap_or(true) {
            *l = Some((size, sym));
        }
    });
    let _ = IN_NOTE.try_with(|f| f.set(false));
}

pub fn take_big_site() -> Option<(usize, String)> {
    LAST_BIG.try_with(|l| l.borrow_mut().take()).ok().flatten()
}

pub fn restore_big_site(size: usize, sym: String) {
    let _ = LAST_BIG.try_with(|l| *l.borrow_mut() = Some((size, sym)));
}
