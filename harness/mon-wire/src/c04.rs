//! C04 - certificates are tamper-evident and survive the wire unchanged.
//!
//! (a) every single-field mutator of a certificate changes `try_compute_hash`
//! (b) protocol messages over the honest value grammar: same digest => equal
//! (c) Certificate -> CertificateMessage -> JSON text (re-serialised) -> CertificateMessage ->
//!     Certificate keeps hash, signed message and the verifier's verdict.
use chrono::{DateTime, Utc};
use fixed::types::U8F24;
use mithril_common::certificate_chain::{CertificateVerifier, MithrilCertificateVerifier};
use mithril_common::crypto_helper::{
    GenesisEd25519Signature, GenesisVerifier, ProtocolAggregateVerificationKeyForConcatenation,
    ProtocolMultiSignature,
};
use mithril_common::entities::{
    BlockNumber, BlockNumberOffset, CardanoDbBeacon, Certificate, CertificateMetadata,
    CertificateSignature, Epoch, ProtocolMessage, ProtocolMessageHashScheme, ProtocolMessagePartKey,
    ProtocolParameters, SignedEntityType, StakeDistributionParty,
};
use mithril_common::messages::CertificateMessage;
use mithril_common::test::double::FakeCertificaterRetriever;
use rand_chacha::ChaCha20Rng;
use rand_core::RngCore;
use serde_json::{json, Value};
use std::sync::Arc;
use vcore::{rnd, Monitor};

use crate::certgen::*;
use crate::jsonfmt::{self, Style};
use crate::util::{arbitrary_string, block_on, clip, hex_string, interesting_u64, sha_hex};

/// violation + a per-signature counter (vcore keeps 30 witnesses; the counters keep every class)
trait ViolationCounted {
    fn v(&mut self, signature: &str, what: &str, replay: Value);
}
impl ViolationCounted for Monitor {
    fn v(&mut self, signature: &str, what: &str, replay: Value) {
        self.count(&format!("viol|{signature}"));
        self.violation(signature, what, replay);
    }
}

// ---------------------------------------------------------------------------------------------
// canonical field dump (harness-side notion of "the same certificate")

fn phi_fixed_bits(phi: f64) -> Option<u32> {
    U8F24::checked_from_num(phi).map(|f| f.to_bits())
}

fn time_repr(t: &DateTime<Utc>) -> String {
    format!("{}s+{}ns", t.timestamp(), t.timestamp_subsec_nanos())
}

fn set_repr(s: &SignedEntityType) -> (String, Vec<u64>) {
    match s {
        SignedEntityType::MithrilStakeDistribution(Epoch(e)) => ("MithrilStakeDistribution".into(), vec![*e]),
        SignedEntityType::CardanoStakeDistribution(Epoch(e)) => ("CardanoStakeDistribution".into(), vec![*e]),
        SignedEntityType::CardanoDatabase(CardanoDbBeacon { epoch: Epoch(e), immutable_file_number }) => {
            ("CardanoDatabase".into(), vec![*e, *immutable_file_number])
        }
        SignedEntityType::CardanoTransactions(Epoch(e), BlockNumber(b)) => ("CardanoTransactions".into(), vec![*e, *b]),
        SignedEntityType::CardanoBlocksTransactions(Epoch(e), BlockNumber(b), BlockNumberOffset(o)) => {
            ("CardanoBlocksTransactions".into(), vec![*e, *b, *o])
        }
    }
}

fn scheme_repr(s: &ProtocolMessageHashScheme) -> &'static str {
    match s {
        ProtocolMessageHashScheme::Legacy => "legacy",
    }
}

/// Flat list of (path, value) over an exhaustive destructuring of every type involved: a field
/// added upstream breaks this function at compile time.
pub fn dump(c: &Certificate) -> Vec<(String, String)> {
    let Certificate {
        hash,
        previous_hash,
        epoch,
        metadata,
        protocol_message,
        signed_message,
        aggregate_verification_key,
        ancillary_prover_data,
        ancillary_verifier_data,
        signature,
    } = c;
    let CertificateMetadata { network, protocol_version, protocol_parameters, initiated_at, sealed_at, signers } = metadata;
    let ProtocolParameters { k, m, phi_f } = protocol_parameters;
    let ProtocolMessage { message_parts, hash_scheme } = protocol_message;
    let Epoch(epoch) = epoch;
    let mut v: Vec<(String, String)> = vec![];
    let mut p = |k: &str, val: String| v.push((k.to_string(), val));
    p("hash", hash.clone());
    p("previous_hash", previous_hash.clone());
    p("epoch", epoch.to_string());
    p("metadata.network", network.clone());
    p("metadata.protocol_version", protocol_version.clone());
    p("metadata.protocol_parameters.k", k.to_string());
    p("metadata.protocol_parameters.m", m.to_string());
    p("metadata.protocol_parameters.phi_f@u8f24", format!("{:?}", phi_fixed_bits(*phi_f)));
    p("metadata.protocol_parameters.phi_f@f64", format!("{:016x}", phi_f.to_bits()));
    p("metadata.initiated_at", time_repr(initiated_at));
    p("metadata.sealed_at", time_repr(sealed_at));
    p("metadata.signers.len", signers.len().to_string());
    for (i, s) in signers.iter().enumerate() {
        let StakeDistributionParty { party_id, stake } = s;
        p(&format!("metadata.signers[{i}].party_id"), party_id.clone());
        p(&format!("metadata.signers[{i}].stake"), stake.to_string());
    }
    p("protocol_message.hash_scheme", scheme_repr(hash_scheme).to_string());
    for k in all_part_keys() {
        p(
            &format!("protocol_message.message_parts[{k}]"),
            match message_parts.get(&k) {
                Some(v) => format!("Some({v})"),
                None => "None".into(),
            },
        );
    }
    p("signed_message", signed_message.clone());
    p("aggregate_verification_key", aggregate_verification_key.to_json_hex().unwrap_or_else(|e| format!("ERR {e}")));
    match ancillary_prover_data {
        None => p("ancillary_prover_data", "None".into()),
        // uninhabited without future_snark: the empty match breaks the build once a variant exists
        Some(k) => match **k {},
    }
    match ancillary_verifier_data {
        None => p("ancillary_verifier_data", "None".into()),
        Some(k) => match **k {},
    }
    match signature {
        CertificateSignature::GenesisSignature(s) => {
            p("signature.kind", "genesis".into());
            p("signature.genesis", s.to_bytes_hex().unwrap_or_else(|e| format!("ERR {e}")));
        }
        CertificateSignature::MultiSignature(set, ms) => {
            let (name, nums) = set_repr(set);
            p("signature.kind", "multi".into());
            p("signature.signed_entity_type.variant", name);
            p("signature.signed_entity_type.beacon", format!("{nums:?}"));
            p("signature.multi_signature", ms.to_json_hex().unwrap_or_else(|e| format!("ERR {e}")));
        }
    }
    v
}

fn dump_diff(a: &[(String, String)], b: &[(String, String)]) -> Vec<String> {
    let ma: std::collections::BTreeMap<_, _> = a.iter().cloned().collect();
    let mb: std::collections::BTreeMap<_, _> = b.iter().cloned().collect();
    let mut d = vec![];
    for (k, v) in &ma {
        if mb.get(k) != Some(v) {
            d.push(k.clone());
        }
    }
    for k in mb.keys() {
        if !ma.contains_key(k) {
            d.push(k.clone());
        }
    }
    d
}

fn dump_digest(d: &[(String, String)]) -> String {
    let mut parts: Vec<&[u8]> = vec![];
    for (k, v) in d {
        parts.push(k.as_bytes());
        parts.push(v.as_bytes());
    }
    sha_hex(&parts)
}

// ---------------------------------------------------------------------------------------------
// mutators

#[derive(Clone, Copy, PartialEq, Eq, Debug)]
pub enum Expect {
    /// the hash must change
    Differs,
    /// `hash` is the output of the function, not an input
    OutputField,
    /// phi changed below U8F24 resolution: the statement allows the same hash
    SubResolution,
}

pub struct Mutant {
    pub id: String,
    pub cert: Certificate,
    pub expect: Expect,
}

fn string_changes(s: &str, rng: &mut ChaCha20Rng) -> Vec<(&'static str, String)> {
    let mut v: Vec<(&'static str, String)> = vec![];
    v.push(("append-char", format!("{s}0")));
    v.push(("prepend-char", format!(" {s}")));
    let chars: Vec<char> = s.chars().collect();
    if !chars.is_empty() {
        v.push(("drop-last-char", chars[..chars.len() - 1].iter().collect()));
        v.push(("empty", String::new()));
        let i = rnd::usize_below(rng, chars.len());
        let mut c2 = chars.clone();
        c2[i] = if chars[i] == 'a' { 'b' } else { 'a' };
        v.push(("replace-one-char", c2.iter().collect()));
        if let Some(i) = chars.iter().position(|c| c.is_ascii_alphabetic()) {
            let mut c3 = chars.clone();
            c3[i] = if chars[i].is_ascii_lowercase() { chars[i].to_ascii_uppercase() } else { chars[i].to_ascii_lowercase() };
            v.push(("swap-case", c3.iter().collect()));
        }
        if chars.len() >= 2 && chars[0] != chars[chars.len() - 1] {
            let mut c4 = chars.clone();
            let n = c4.len();
            c4.swap(0, n - 1);
            v.push(("swap-first-last", c4.iter().collect()));
        }
    }
    let r = arbitrary_string(rng, 12);
    v.push(("arbitrary", r));
    v.retain(|(_, x)| x != s);
    v
}

fn u64_changes(x: u64, rng: &mut ChaCha20Rng) -> Vec<(&'static str, u64)> {
    let mut v = vec![
        ("+1", x.wrapping_add(1)),
        ("-1", x.wrapping_sub(1)),
        ("flip-bit63", x ^ (1 << 63)),
        ("flip-bit0", x ^ 1),
        ("flip-random-bit", x ^ (1 << rnd::below(rng, 64))),
        ("byte-swap", x.swap_bytes()),
        ("zero", 0),
        ("max", u64::MAX),
        ("shift-left-8", x << 8),
        ("random", interesting_u64(rng)),
    ];
    v.retain(|(_, y)| *y != x);
    v
}

fn time_changes(t: &DateTime<Utc>, rng: &mut ChaCha20Rng) -> Vec<(&'static str, DateTime<Utc>)> {
    let n = t.timestamp_nanos_opt().expect("generated timestamps are in range");
    let mut v: Vec<(&'static str, i64)> = vec![];
    for (tag, d) in [("+1ns", 1i64), ("-1ns", -1), ("+1us", 1_000), ("+1ms", 1_000_000), ("+1s", 1_000_000_000), ("-1s", -1_000_000_000), ("+1h", 3_600_000_000_000)] {
        if let Some(m) = n.checked_add(d) {
            v.push((tag, m));
        }
    }
    // sub-second part only / seconds only
    let sub = n.rem_euclid(1_000_000_000);
    if let Some(secs) = n.checked_sub(sub) {
        let sub2 = (sub + 1 + rnd::below(rng, 999_999_998) as i64) % 1_000_000_000;
        if let Some(m) = secs.checked_add(sub2) {
            v.push(("subsecond-part-only", m));
        }
        v.push(("truncate-to-seconds", secs));
    }
    if let Some(ms) = n.checked_sub(n.rem_euclid(1_000_000)) {
        v.push(("truncate-to-millis", ms));
    }
    v.push(("random", random_time(rng).timestamp_nanos_opt().unwrap()));
    v.push(("negate", n.checked_neg().unwrap_or(0)));
    v.into_iter().filter(|(_, m)| *m != n).map(|(tag, m)| (tag, DateTime::<Utc>::from_timestamp_nanos(m))).collect()
}

fn phi_changes(phi: f64, rng: &mut ChaCha20Rng) -> Vec<(&'static str, f64, Expect)> {
    let ulp = 1.0 / U8F24_ONE;
    let mut cands: Vec<(&'static str, f64)> = vec![
        ("+1 u8f24 ulp", phi + ulp),
        ("-1 u8f24 ulp", phi - ulp),
        ("+1/2 u8f24 ulp", phi + ulp / 2.0),
        ("+1 f64 ulp", f64::from_bits(phi.to_bits() + 1)),
        ("-1 f64 ulp", f64::from_bits(phi.to_bits().saturating_sub(1))),
        ("+1/64 u8f24 ulp", phi + ulp / 64.0),
        ("random", random_phi(rng)),
        ("zero", 0.0),
        ("one", 1.0),
        ("complement", 1.0 - phi),
    ];
    cands.retain(|(_, x)| (0.0..=1.0).contains(x) && x.to_bits() != phi.to_bits());
    // values outside the fixed-point range (8 integer bits): whatever the conversion does with
    // them (a production build of the `fixed` crate wraps), they are not the original value at any
    // precision
    for (t, x) in [("+256 (outside the fixed-point range)", phi + 256.0), ("+512 (outside the fixed-point range)", phi + 512.0), ("+2^32 (outside the fixed-point range)", phi + 4294967296.0), ("-256 (outside the fixed-point range)", phi - 256.0)] {
        cands.push((t, x));
    }
    let base = phi_fixed_bits(phi);
    cands
        .into_iter()
        .map(|(t, x)| (t, x, if phi_fixed_bits(x) != base { Expect::Differs } else { Expect::SubResolution }))
        .collect()
}

fn set_changes(s: &SignedEntityType, rng: &mut ChaCha20Rng) -> Vec<(String, SignedEntityType)> {
    let mut out: Vec<(String, SignedEntityType)> = vec![];
    let (name, nums) = set_repr(s);
    let vi = match s {
        SignedEntityType::MithrilStakeDistribution(_) => 0,
        SignedEntityType::CardanoStakeDistribution(_) => 1,
        SignedEntityType::CardanoDatabase(_) => 2,
        SignedEntityType::CardanoTransactions(_, _) => 3,
        SignedEntityType::CardanoBlocksTransactions(_, _, _) => 4,
    };
    let field_names: &[&str] = match s {
        SignedEntityType::MithrilStakeDistribution(_) | SignedEntityType::CardanoStakeDistribution(_) => &["epoch"],
        SignedEntityType::CardanoDatabase(_) => &["epoch", "immutable_file_number"],
        SignedEntityType::CardanoTransactions(_, _) => &["epoch", "block_number"],
        SignedEntityType::CardanoBlocksTransactions(_, _, _) => &["epoch", "block_number", "block_number_offset"],
    };
    // each beacon number
    for (i, fname) in field_names.iter().enumerate() {
        for (tag, y) in u64_changes(nums[i], rng) {
            let mut n = nums.clone();
            n[i] = y;
            n.resize(3, 0);
            out.push((format!("signature.signed_entity_type.{name}.{fname}/{tag}"), make_set(vi, n[0], n[1], n[2])));
        }
    }
    // swap two beacon numbers
    if nums.len() >= 2 && nums[0] != nums[1] {
        let mut n = nums.clone();
        n.swap(0, 1);
        n.resize(3, 0);
        out.push((format!("signature.signed_entity_type.{name}/swap-first-two-numbers"), make_set(vi, n[0], n[1], n[2])));
    }
    // variant change keeping the beacon numbers (missing ones = 0, surplus ones dropped)
    let mut n = nums.clone();
    n.resize(3, 0);
    for w in 0..N_SET_VARIANTS {
        if w == vi {
            continue;
        }
        let t = make_set(w, n[0], n[1], n[2]);
        let (tname, tnums) = set_repr(&t);
        let same_beacon = tnums == nums;
        let (a, b) = if name < tname { (name.clone(), tname) } else { (tname, name.clone()) };
        let id = if same_beacon {
            format!("signature.signed_entity_type variant {a}<->{b} (same beacon numbers)")
        } else {
            format!("signature.signed_entity_type variant {a}<->{b} (beacon padded or cut)")
        };
        out.push((id, t));
    }
    out
}

/// JSON-level edits of a key (the key types have private fields): decode json-hex, edit, re-encode
fn json_hex_edit(hex_s: &str, f: impl FnOnce(&mut Value) -> bool) -> Option<String> {
    let bytes = hex::decode(hex_s).ok()?;
    let mut v: Value = serde_json::from_slice(&bytes).ok()?;
    if !f(&mut v) {
        return None;
    }
    Some(hex::encode(serde_json::to_vec(&v).ok()?))
}

/// the JSON shape of the aggregate verification key this monitor knows how to mutate; anything
/// else means the type gained a field and the monitor must learn it
pub fn avk_shape_known(avk: &ProtocolAggregateVerificationKeyForConcatenation) -> bool {
    let Ok(h) = avk.to_json_hex() else { return false };
    let Ok(b) = hex::decode(h) else { return false };
    let Ok(v) = serde_json::from_slice::<Value>(&b) else { return false };
    let keys = |v: &Value| -> Vec<String> { v.as_object().map(|o| o.keys().cloned().collect()).unwrap_or_default() };
    let mut top = keys(&v);
    top.sort();
    let mut inner = keys(&v["mt_commitment"]);
    inner.sort();
    top == ["mt_commitment", "total_stake"] && inner == ["hasher", "nr_leaves", "root"]
}

fn avk_changes(
    avk: &ProtocolAggregateVerificationKeyForConcatenation,
    rng: &mut ChaCha20Rng,
    pools: &Pools,
) -> Vec<(&'static str, ProtocolAggregateVerificationKeyForConcatenation)> {
    let mut out = vec![];
    let cur = avk.to_json_hex().unwrap();
    let other = rnd::pick(rng, &pools.avks);
    if other.to_json_hex().unwrap() != cur {
        out.push(("other-key", other.clone()));
    }
    let mut edit = |tag: &'static str, f: &dyn Fn(&mut Value) -> bool| {
        if let Some(h) = json_hex_edit(&cur, |v| f(v)) {
            if let Ok(k) = ProtocolAggregateVerificationKeyForConcatenation::from_json_hex(&h) {
                if k.to_json_hex().unwrap() != cur {
                    out.push((tag, k));
                }
            }
        }
    };
    edit("total_stake+1", &|v| {
        let n = v["total_stake"].as_u64().unwrap_or(0);
        v["total_stake"] = json!(n.wrapping_add(1));
        true
    });
    edit("total_stake=max", &|v| {
        v["total_stake"] = json!(u64::MAX);
        true
    });
    edit("nr_leaves+1", &|v| {
        let n = v["mt_commitment"]["nr_leaves"].as_u64().unwrap_or(0);
        v["mt_commitment"]["nr_leaves"] = json!(n + 1);
        true
    });
    edit("root-flip-byte", &|v| match v["mt_commitment"]["root"].as_array_mut() {
        Some(a) if !a.is_empty() => {
            let x = a[0].as_u64().unwrap_or(0);
            a[0] = json!((x ^ 1) & 0xff);
            true
        }
        _ => false,
    });
    edit("root-drop-last-byte", &|v| match v["mt_commitment"]["root"].as_array_mut() {
        Some(a) if !a.is_empty() => {
            a.pop();
            true
        }
        _ => false,
    });
    edit("root-append-byte", &|v| match v["mt_commitment"]["root"].as_array_mut() {
        Some(a) => {
            a.push(json!(0));
            true
        }
        _ => false,
    });
    out
}

fn msig_changes(ms: &ProtocolMultiSignature, rng: &mut ChaCha20Rng, pools: &Pools) -> Vec<(&'static str, ProtocolMultiSignature)> {
    let mut out = vec![];
    let cur = ms.to_json_hex().unwrap();
    let other = rnd::pick(rng, &pools.msigs);
    if other.to_json_hex().unwrap() != cur {
        out.push(("other-signature", other.clone()));
    }
    let mut edit = |tag: &'static str, f: &dyn Fn(&mut Value) -> bool| {
        if let Some(h) = json_hex_edit(&cur, |v| f(v)) {
            if let Ok(k) = ProtocolMultiSignature::from_json_hex(&h) {
                if k.to_json_hex().unwrap() != cur {
                    out.push((tag, k));
                }
            }
        }
    };
    edit("first-signature.indexes[0]+1", &|v| match v["signatures"][0][0]["indexes"].as_array_mut() {
        Some(a) if !a.is_empty() => {
            a[0] = json!(a[0].as_u64().unwrap_or(0) + 1);
            true
        }
        _ => false,
    });
    edit("first-signature.indexes-drop-last", &|v| match v["signatures"][0][0]["indexes"].as_array_mut() {
        Some(a) if a.len() > 1 => {
            a.pop();
            true
        }
        _ => false,
    });
    edit("first-signature.signer_index+1", &|v| {
        let Some(n) = v["signatures"][0][0]["signer_index"].as_u64() else { return false };
        v["signatures"][0][0]["signer_index"] = json!(n + 1);
        true
    });
    edit("first-party.stake+1", &|v| {
        let Some(n) = v["signatures"][0][1][1].as_u64() else { return false };
        v["signatures"][0][1][1] = json!(n + 1);
        true
    });
    edit("drop-last-signature", &|v| match v["signatures"].as_array_mut() {
        Some(a) if a.len() > 1 => {
            a.pop();
            true
        }
        _ => false,
    });
    edit("swap-first-two-signatures", &|v| match v["signatures"].as_array_mut() {
        Some(a) if a.len() > 1 && a[0] != a[1] => {
            a.swap(0, 1);
            true
        }
        _ => false,
    });
    edit("batch_proof.indices[0]+1", &|v| match v["batch_proof"]["indices"].as_array_mut() {
        Some(a) if !a.is_empty() => {
            a[0] = json!(a[0].as_u64().unwrap_or(0) + 1);
            true
        }
        _ => false,
    });
    edit("batch_proof.values-append", &|v| match v["batch_proof"]["values"].as_array_mut() {
        Some(a) => {
            a.push(json!(vec![7u8; 32]));
            true
        }
        _ => false,
    });
    out
}

fn flip_genesis_signature(s: &GenesisEd25519Signature, i: usize) -> GenesisEd25519Signature {
    let mut b = s.to_bytes();
    b[i % 63] ^= 1;
    GenesisEd25519Signature::new(ed25519_dalek::Signature::from_bytes(&b))
}

/// Every single-field mutator, generated against an exhaustive destructuring (no `..`).
pub fn mutants(c: &Certificate, rng: &mut ChaCha20Rng, pools: &Pools) -> Vec<Mutant> {
    let Certificate {
        hash,
        previous_hash,
        epoch,
        metadata,
        protocol_message,
        signed_message,
        aggregate_verification_key,
        ancillary_prover_data,
        ancillary_verifier_data,
        signature,
    } = c;
    let CertificateMetadata { network, protocol_version, protocol_parameters, initiated_at, sealed_at, signers } = metadata;
    let ProtocolParameters { k, m, phi_f } = protocol_parameters;
    let ProtocolMessage { message_parts, hash_scheme } = protocol_message;

    let mut out: Vec<Mutant> = vec![];
    let mut add = |id: String, expect: Expect, f: &dyn Fn(&mut Certificate)| {
        let mut x = c.clone();
        f(&mut x);
        out.push(Mutant { id, cert: x, expect });
    };

    // hash: the output
    for (tag, v) in string_changes(hash, rng).into_iter().take(2) {
        add(format!("hash/{tag}"), Expect::OutputField, &|x| x.hash = v.clone());
    }
    for (tag, v) in string_changes(previous_hash, rng) {
        add(format!("previous_hash/{tag}"), Expect::Differs, &|x| x.previous_hash = v.clone());
    }
    {
        let Epoch(e) = epoch;
        for (tag, v) in u64_changes(*e, rng) {
            add(format!("epoch/{tag}"), Expect::Differs, &|x| x.epoch = Epoch(v));
        }
    }
    for (tag, v) in string_changes(network, rng) {
        add(format!("metadata.network/{tag}"), Expect::Differs, &|x| x.metadata.network = v.clone());
    }
    for (tag, v) in string_changes(protocol_version, rng) {
        add(format!("metadata.protocol_version/{tag}"), Expect::Differs, &|x| x.metadata.protocol_version = v.clone());
    }
    for (tag, v) in u64_changes(*k, rng) {
        add(format!("metadata.protocol_parameters.k/{tag}"), Expect::Differs, &|x| x.metadata.protocol_parameters.k = v);
    }
    for (tag, v) in u64_changes(*m, rng) {
        add(format!("metadata.protocol_parameters.m/{tag}"), Expect::Differs, &|x| x.metadata.protocol_parameters.m = v);
    }
    // k <-> m exchanged (two fields, but a classic for concatenated hashing; informative only when k != m)
    for (tag, v, e) in phi_changes(*phi_f, rng) {
        add(format!("metadata.protocol_parameters.phi_f/{tag}"), e, &|x| x.metadata.protocol_parameters.phi_f = v);
    }
    for (tag, v) in time_changes(initiated_at, rng) {
        add(format!("metadata.initiated_at/{tag}"), Expect::Differs, &|x| x.metadata.initiated_at = v);
    }
    for (tag, v) in time_changes(sealed_at, rng) {
        add(format!("metadata.sealed_at/{tag}"), Expect::Differs, &|x| x.metadata.sealed_at = v);
    }
    // signers
    {
        let n = signers.len();
        let mut idx: Vec<usize> = vec![];
        if n > 0 {
            idx.push(0);
            idx.push(n - 1);
            idx.push(rnd::usize_below(rng, n));
            idx.sort();
            idx.dedup();
        }
        for i in idx {
            let StakeDistributionParty { party_id, stake } = &signers[i];
            let pos = if i == 0 { "first" } else if i == n - 1 { "last" } else { "middle" };
            for (tag, v) in string_changes(party_id, rng).into_iter().take(4) {
                add(format!("metadata.signers[{pos}].party_id/{tag}"), Expect::Differs, &|x| x.metadata.signers[i].party_id = v.clone());
            }
            for (tag, v) in u64_changes(*stake, rng).into_iter().take(5) {
                add(format!("metadata.signers[{pos}].stake/{tag}"), Expect::Differs, &|x| x.metadata.signers[i].stake = v);
            }
            add(format!("metadata.signers/remove-{pos}"), Expect::Differs, &|x| {
                x.metadata.signers.remove(i);
            });
            add(format!("metadata.signers/duplicate-{pos}"), Expect::Differs, &|x| {
                let d = x.metadata.signers[i].clone();
                x.metadata.signers.insert(i, d);
            });
        }
        let extra = random_party(rng);
        let at = rnd::usize_below(rng, n + 1);
        add("metadata.signers/insert".into(), Expect::Differs, &|x| x.metadata.signers.insert(at, extra.clone()));
        if n >= 2 {
            let i = rnd::usize_below(rng, n - 1);
            if signers[i] != signers[i + 1] {
                add("metadata.signers/swap-adjacent".into(), Expect::Differs, &|x| x.metadata.signers.swap(i, i + 1));
            }
            let mut rev = signers.clone();
            rev.reverse();
            if &rev != signers {
                add("metadata.signers/reverse".into(), Expect::Differs, &|x| x.metadata.signers.reverse());
            }
        }
        if n > 0 {
            add("metadata.signers/clear".into(), Expect::Differs, &|x| x.metadata.signers.clear());
        }
    }
    // protocol message
    match hash_scheme {
        // only variant without future_snark; a new variant breaks the build here
        ProtocolMessageHashScheme::Legacy => {}
    }
    {
        let keys = all_part_keys();
        for key in &keys {
            match message_parts.get(key) {
                Some(v) => {
                    for (tag, nv) in string_changes(v, rng).into_iter().take(3) {
                        add(format!("protocol_message[{key}]/{tag}"), Expect::Differs, &|x| {
                            x.protocol_message.set_message_part(*key, nv.clone());
                        });
                    }
                    add(format!("protocol_message[{key}]/remove"), Expect::Differs, &|x| {
                        x.protocol_message.message_parts.remove(key);
                    });
                }
                None => {
                    let nv = honest_part_value(rng, *key, Some(pools));
                    add(format!("protocol_message[{key}]/add"), Expect::Differs, &|x| {
                        x.protocol_message.set_message_part(*key, nv.clone());
                    });
                }
            }
        }
        // a value re-filed under another (absent) key
        let present: Vec<_> = keys.iter().filter(|k| message_parts.contains_key(k)).collect();
        let absent: Vec<_> = keys.iter().filter(|k| !message_parts.contains_key(k)).collect();
        if !present.is_empty() && !absent.is_empty() {
            let from = **rnd::pick(rng, &present);
            let to = **rnd::pick(rng, &absent);
            add("protocol_message/move-value-to-other-key".into(), Expect::Differs, &|x| {
                let v = x.protocol_message.message_parts.remove(&from).unwrap();
                x.protocol_message.set_message_part(to, v);
            });
        }
    }
    for (tag, v) in string_changes(signed_message, rng) {
        add(format!("signed_message/{tag}"), Expect::Differs, &|x| x.signed_message = v.clone());
    }
    for (tag, v) in avk_changes(aggregate_verification_key, rng, pools) {
        add(format!("aggregate_verification_key/{tag}"), Expect::Differs, &|x| x.aggregate_verification_key = v.clone());
    }
    match ancillary_prover_data {
        None => {}
        Some(k) => match **k {},
    }
    match ancillary_verifier_data {
        None => {}
        Some(k) => match **k {},
    }
    match signature {
        CertificateSignature::GenesisSignature(s) => {
            let i = rnd::usize_below(rng, 63);
            let f = flip_genesis_signature(s, i);
            add("signature.genesis/flip-bit".into(), Expect::Differs, &|x| x.signature = CertificateSignature::GenesisSignature(f));
            let o = random_genesis_signature(rng, pools);
            if o.to_bytes() != s.to_bytes() {
                add("signature.genesis/other-signature".into(), Expect::Differs, &|x| x.signature = CertificateSignature::GenesisSignature(o));
            }
            let set = random_set(rng);
            let ms = rnd::pick(rng, &pools.msigs).clone();
            add("signature/genesis->multi".into(), Expect::Differs, &|x| {
                x.signature = CertificateSignature::MultiSignature(set.clone(), ms.clone())
            });
        }
        CertificateSignature::MultiSignature(set, ms) => {
            for (id, nset) in set_changes(set, rng) {
                add(id, Expect::Differs, &|x| x.signature = CertificateSignature::MultiSignature(nset.clone(), ms.clone()));
            }
            for (tag, nms) in msig_changes(ms, rng, pools) {
                add(format!("signature.multi_signature/{tag}"), Expect::Differs, &|x| {
                    x.signature = CertificateSignature::MultiSignature(set.clone(), nms.clone())
                });
            }
            let g = random_genesis_signature(rng, pools);
            add("signature/multi->genesis".into(), Expect::Differs, &|x| x.signature = CertificateSignature::GenesisSignature(g));
        }
    }
    out
}

fn message_json(c: &Certificate) -> Value {
    match CertificateMessage::try_from(c.clone()) {
        Ok(m) => serde_json::to_value(&m).unwrap_or(Value::Null),
        Err(e) => json!({"error": e.to_string()}),
    }
}

/// mutator id without the per-case tail: used in violation signatures
fn class_of(id: &str) -> String {
    // "metadata.sealed_at/+1ns" -> "metadata.sealed_at": one signature per field, the concrete edit
    // is in `what` / the replay file
    id.split('/').next().unwrap_or(id).to_string()
}

pub fn part_a(cert: &Certificate, origin: &str, rng: &mut ChaCha20Rng, pools: &Pools, mon: &mut Monitor) {
    let h0 = match cert.try_compute_hash() {
        Ok(h) => h,
        Err(e) => {
            mon.count("a.base_hash_error");
            mon.inconclusive(&format!("try_compute_hash failed on a generated certificate: {e}"));
            return;
        }
    };
    let d0 = dump(cert);
    mon.count(&format!("a.certificates.{origin}"));
    for mu in mutants(cert, rng, pools) {
        mon.eval();
        let d1 = dump(&mu.cert);
        let changed = dump_diff(&d0, &d1);
        if changed.is_empty() {
            mon.count("a.skipped_mutant_identical");
            continue;
        }
        let family = mu.id.split('/').next().unwrap_or("").to_string();
        mon.count(&format!("a.mutator.{family}"));
        let h1 = match vcore::catch(|| mu.cert.try_compute_hash()) {
            Ok(Ok(h)) => h,
            Ok(Err(e)) => {
                mon.count("a.mutant_hash_error");
                let _ = e;
                continue;
            }
            Err(p) => {
                mon.v(
                    "C04 try_compute_hash panics on a certificate in the quantifier",
                    &format!("mutator {}: {p}", mu.id),
                    json!({"part":"a","mutator":mu.id,"certificate":message_json(cert),"mutant":message_json(&mu.cert)}),
                );
                continue;
            }
        };
        match mu.expect {
            Expect::OutputField => {
                if h1 == h0 {
                    mon.count("a.hash_field_is_output_not_input");
                } else {
                    mon.v(
                        "C04 certificate hash depends on its own hash field",
                        &format!("mutator {}", mu.id),
                        json!({"part":"a","mutator":mu.id,"certificate":message_json(cert),"mutant":message_json(&mu.cert)}),
                    );
                }
            }
            Expect::SubResolution => {
                mon.count(if h1 == h0 { "a.diag.phi_below_resolution_same_hash" } else { "a.diag.phi_below_resolution_other_hash" });
            }
            Expect::Differs => {
                mon.nontrivial_str(&format!("a|{}|{}|{}", mu.id, h0, dump_digest(&d1)));
                if h1 != h0 {
                    mon.count("a.hash_changed");
                } else {
                    mon.count("a.HASH_UNCHANGED");
                    mon.v(
                        &format!("C04 certificate hash unchanged by single-field change: {}", class_of(&mu.id)),
                        &format!(
                            "mutator {}: fields that differ: {:?}; both certificates hash to {h0} (origin: {origin})",
                            mu.id, changed
                        ),
                        json!({"part":"a","mutator":mu.id,"changed_fields":changed,"hash":h0,
                               "certificate":message_json(cert),"mutant":message_json(&mu.cert)}),
                    );
                }
            }
        }
        if mon.wants_sample() && rnd::chance(rng, 1, 40) {
            mon.sample(json!({"part":"a","mutator":mu.id,"changed_fields":changed,"hash":h0,"mutant_hash":h1}));
        }
    }
    // diagnostics outside the quantifier -------------------------------------------------------
    // (1) two different timestamps outside the i64-nanosecond range
    {
        let t1 = DateTime::parse_from_rfc3339("3000-01-01T00:00:00Z").unwrap().with_timezone(&Utc);
        let t2 = DateTime::parse_from_rfc3339("3001-01-01T00:00:00Z").unwrap().with_timezone(&Utc);
        let mut a = cert.clone();
        a.metadata.sealed_at = t1;
        let mut b = cert.clone();
        b.metadata.sealed_at = t2;
        if let (Ok(Ok(x)), Ok(Ok(y))) = (vcore::catch(|| a.try_compute_hash()), vcore::catch(|| b.try_compute_hash())) {
            mon.count(if x == y { "a.diag.out_of_range_timestamps_same_hash" } else { "a.diag.out_of_range_timestamps_other_hash" });
        }
    }
    // (2) two-field boundary shift network|protocol_version (not a single-field change)
    {
        let net: Vec<char> = cert.metadata.network.chars().collect();
        if let Some((last, head)) = net.split_last() {
            let mut b = cert.clone();
            b.metadata.network = head.iter().collect();
            b.metadata.protocol_version = format!("{last}{}", cert.metadata.protocol_version);
            if let Ok(Ok(y)) = vcore::catch(|| b.try_compute_hash()) {
                mon.count(if y == h0 {
                    "a.diag.two_field_shift_network|version_same_hash"
                } else {
                    "a.diag.two_field_shift_network|version_other_hash"
                });
            }
        }
    }
    // (3) phi outside U8F24: phi_f_fixed panics (DESIGN: out-of-domain note)
    {
        let mut b = cert.clone();
        b.metadata.protocol_parameters.phi_f = 1e10;
        match vcore::catch(|| b.try_compute_hash()) {
            Ok(_) => mon.count("a.diag.phi_out_of_domain_no_panic"),
            Err(_) => mon.count("a.diag.phi_out_of_domain_panics"),
        }
    }
}

// ---------------------------------------------------------------------------------------------
// (b) protocol messages

fn pm_in_grammar(pm: &ProtocolMessage) -> bool {
    pm.message_parts.iter().all(|(k, v)| in_grammar(part_grammar(*k), v))
}

fn pm_repr(pm: &ProtocolMessage) -> Value {
    let parts: serde_json::Map<String, Value> = pm.message_parts.iter().map(|(k, v)| (k.to_string(), json!(v))).collect();
    json!({"parts": parts, "scheme": scheme_repr(&pm.hash_scheme)})
}

/// independent statement of "what gets hashed" is NOT used: the oracle is injectivity only
fn judge_pair(tag: &str, m1: &ProtocolMessage, m2: &ProtocolMessage, mon: &mut Monitor) {
    mon.eval();
    let (d1, d2) = (m1.compute_hash(), m2.compute_hash());
    let equal = m1 == m2;
    let g = pm_in_grammar(m1) && pm_in_grammar(m2);
    mon.count(&format!("b.pairs.{tag}"));
    if equal {
        if d1 != d2 {
            mon.v(
                "C04 equal protocol messages have different digests",
                &format!("construction {tag}"),
                json!({"part":"b","construction":tag,"m1":pm_repr(m1),"m2":pm_repr(m2)}),
            );
        } else {
            mon.count("b.equal_messages_same_digest");
        }
        return;
    }
    if g {
        mon.nontrivial_str(&format!("b|{}|{}", pm_repr(m1), pm_repr(m2)));
    }
    if d1 == d2 {
        if g {
            mon.v(
                &format!("C04 distinct well-formed protocol messages share a digest ({tag})"),
                &format!("digest {d1}"),
                json!({"part":"b","construction":tag,"m1":pm_repr(m1),"m2":pm_repr(m2),"digest":d1}),
            );
        } else {
            mon.count(&format!("b.diag.collision_outside_grammar.{tag}"));
        }
    } else {
        mon.count(if g { "b.distinct_in_grammar_distinct_digest" } else { "b.distinct_outside_grammar_distinct_digest" });
    }
}

pub fn part_b(rng: &mut ChaCha20Rng, pools: &Pools, mon: &mut Monitor) {
    let keys = all_part_keys();
    let m1 = loop {
        let m = random_protocol_message(rng, Some(pools));
        if m.message_parts.len() >= 2 {
            break m;
        }
    };
    if mon.wants_sample() && rnd::chance(rng, 1, 30) {
        mon.sample(json!({"part":"b","message":pm_repr(&m1),"digest":m1.compute_hash()}));
    }
    // random pair
    let m2 = random_protocol_message(rng, Some(pools));
    judge_pair("random-pair", &m1, &m2, mon);
    // insertion order does not matter (equal messages)
    {
        let mut m = ProtocolMessage::new();
        let mut kv: Vec<_> = m1.message_parts.iter().collect();
        rnd::shuffle(rng, &mut kv);
        for (k, v) in kv {
            m.set_message_part(*k, v.clone());
        }
        judge_pair("same-parts-other-insertion-order", &m1, &m, mon);
    }
    let present: Vec<ProtocolMessagePartKey> = m1.message_parts.keys().copied().collect();
    // characters moved between adjacent parts' values (both directions)
    for w in present.windows(2) {
        let (a, b) = (w[0], w[1]);
        let (va, vb) = (m1.message_parts[&a].clone(), m1.message_parts[&b].clone());
        for n in [1usize, 2, 4] {
            if va.len() > n {
                let mut m = m1.clone();
                m.set_message_part(a, va[..va.len() - n].to_string());
                m.set_message_part(b, format!("{}{}", &va[va.len() - n..], vb));
                judge_pair("chars-moved-to-next-part", &m1, &m, mon);
            }
            if vb.len() > n {
                let mut m = m1.clone();
                m.set_message_part(a, format!("{}{}", va, &vb[..n]));
                m.set_message_part(b, vb[n..].to_string());
                judge_pair("chars-moved-to-previous-part", &m1, &m, mon);
            }
        }
        // the next part folded into the previous value (value embeds a key name): a real collision
        // of the concatenation, but the folded value is outside the grammar
        {
            let mut m = m1.clone();
            m.message_parts.remove(&b);
            m.set_message_part(a, format!("{va}{b}{vb}"));
            judge_pair("next-part-folded-into-value", &m1, &m, mon);
        }
        // values exchanged
        if va != vb {
            let mut m = m1.clone();
            m.set_message_part(a, vb.clone());
            m.set_message_part(b, va.clone());
            judge_pair("values-exchanged", &m1, &m, mon);
        }
    }
    // parts dropped / added / re-filed
    for k in &present {
        let mut m = m1.clone();
        m.message_parts.remove(k);
        judge_pair("part-dropped", &m1, &m, mon);
        // value extended by hex-looking prefixes of key names ("ca" of cardano_*, "c" of current_epoch)
        for tail in ["c", "ca", "0", "00"] {
            let mut m = m1.clone();
            m.set_message_part(*k, format!("{}{tail}", m1.message_parts[k]));
            judge_pair("value-extended-by-key-prefix", &m1, &m, mon);
        }
    }
    for k in &keys {
        if !m1.message_parts.contains_key(k) {
            let mut m = m1.clone();
            m.set_message_part(*k, honest_part_value(rng, *k, Some(pools)));
            judge_pair("part-added", &m1, &m, mon);
            // a present value of the same grammar re-filed under this key
            if let Some(src) = present.iter().find(|p| part_grammar(**p) == part_grammar(*k)) {
                let mut m = m1.clone();
                let v = m.message_parts.remove(src).unwrap();
                m.set_message_part(*k, v);
                judge_pair("value-refiled-under-other-key", &m1, &m, mon);
            }
            // empty value (outside the grammar) vs absent part
            let mut m = m1.clone();
            m.set_message_part(*k, String::new());
            judge_pair("absent-vs-empty-value", &m1, &m, mon);
        }
    }
    // key whose name extends another key's name: "..._key" + "_snark..." (outside the grammar)
    {
        use ProtocolMessagePartKey::*;
        let v = hex_string(rng, 16);
        let mut a = ProtocolMessage::new();
        a.set_message_part(NextSnarkAggregateVerificationKey, v.clone());
        let mut b = ProtocolMessage::new();
        b.set_message_part(NextAggregateVerificationKey, format!("_snark{v}"));
        judge_pair("key-name-extension", &a, &b, mon);
    }
    // leading zeros / sign on decimals, upper-case hex: outside the grammar, must still differ
    for k in &present {
        let v = &m1.message_parts[k];
        let alt = match part_grammar(*k) {
            Grammar::Decimal => format!("0{v}"),
            _ => v.to_uppercase(),
        };
        if &alt != v {
            let mut m = m1.clone();
            m.set_message_part(*k, alt);
            judge_pair("non-canonical-spelling", &m1, &m, mon);
        }
    }
}

// ---------------------------------------------------------------------------------------------
// (c) wire round trip

#[derive(Debug, Clone, PartialEq, Eq)]
pub enum Verdict {
    /// not asked: the multi-signature claims a stake above the total stake of the aggregate key;
    /// the lottery check of the working tree then runs for minutes to hours (see `claimed_stake_guard`)
    Skipped,
    AcceptedGenesisOrFull,
    AcceptedWithPrevious(String),
    Rejected(String),
    Panicked(String),
}

impl Verdict {
    fn class(&self) -> String {
        match self {
            Verdict::Skipped => "skipped".into(),
            Verdict::AcceptedGenesisOrFull => "accept(no previous)".into(),
            Verdict::AcceptedWithPrevious(h) => format!("accept(previous {h})"),
            Verdict::Rejected(_) => "reject".into(),
            Verdict::Panicked(l) => format!("panic@{}", vcore::panic_location(l)),
        }
    }
}

/// false when some party of the multi-signature claims more stake than the aggregate key's total.
/// `ConcatenationProof::verify` evaluates the lottery for the *claimed* stake before it checks the
/// Merkle membership of the (key, stake) pair; with stake/total in the hundreds the Taylor
/// comparison of `is_lottery_won` runs its 1000 iterations over exploding rationals (observed: more
/// than 20 CPU-minutes for one certificate). That is a finding of its own (reported to the lead, it
/// belongs to the lottery / verification properties), and the monitor must not hang on it.
pub fn claimed_stake_guard(c: &Certificate) -> bool {
    let CertificateSignature::MultiSignature(_, ms) = &c.signature else { return true };
    let total = (|| -> Option<u64> {
        let v: Value = serde_json::from_slice(&hex::decode(c.aggregate_verification_key.to_json_hex().ok()?).ok()?).ok()?;
        v["total_stake"].as_u64()
    })();
    let claimed = (|| -> Option<u64> {
        let v: Value = serde_json::from_slice(&hex::decode(ms.to_json_hex().ok()?).ok()?).ok()?;
        v["signatures"].as_array()?.iter().filter_map(|p| p[1][1].as_u64()).max()
    })();
    match (total, claimed) {
        (Some(t), Some(s)) => s <= t,
        _ => true,
    }
}

pub struct ChainCtx {
    verifier: MithrilCertificateVerifier,
}

impl ChainCtx {
    pub fn new(chain: &[Certificate], gv: &GenesisVerifier) -> ChainCtx {
        let retriever = FakeCertificaterRetriever::from_certificates(chain);
        let logger = slog::Logger::root(slog::Discard, slog::o!());
        ChainCtx { verifier: MithrilCertificateVerifier::new(logger, Arc::new(retriever), Arc::new(gv.clone())) }
    }
    pub fn verdict(&self, c: &Certificate) -> Verdict {
        if !claimed_stake_guard(c) {
            return Verdict::Skipped;
        }
        let trace = std::env::var("MON_WIRE_TRACE_SLOW").is_ok();
        if trace {
            let desc = format!(
                "params={:?} epoch={:?} signed_message={} sig_kind={:?} avk={}",
                c.metadata.protocol_parameters,
                c.epoch,
                c.signed_message,
                c.signature.aggregate_signature_type(),
                c.aggregate_verification_key.to_json_hex().map(|h| String::from_utf8_lossy(&hex::decode(h).unwrap_or_default()).to_string()).unwrap_or_default()
            );
            let desc = format!("{desc} MESSAGE={}", message_json(c));
            slow_trace::enter(desc);
        }
        let v = self.verdict_inner(c);
        if trace {
            slow_trace::leave();
        }
        v
    }
    fn verdict_inner(&self, c: &Certificate) -> Verdict {
        match vcore::catch(|| block_on(self.verifier.verify_certificate(c))) {
            Ok(Ok(None)) => Verdict::AcceptedGenesisOrFull,
            Ok(Ok(Some(p))) => Verdict::AcceptedWithPrevious(p.hash),
            Ok(Err(e)) => Verdict::Rejected(format!("{e:#}")),
            Err(p) => Verdict::Panicked(p),
        }
    }
}

/// the text variants of one message: (label, text)
fn text_variants(msg: &CertificateMessage, rng: &mut ChaCha20Rng, n_random: usize) -> Vec<(String, String)> {
    let mut out = vec![];
    let plain = serde_json::to_string(msg).expect("serialise CertificateMessage");
    out.push(("serde_json::to_string".to_string(), plain.clone()));
    out.push(("serde_json::to_string_pretty".to_string(), serde_json::to_string_pretty(msg).unwrap()));
    let val: Value = serde_json::from_str(&plain).expect("re-parse own serialisation");
    // every float spelling once, everything else plain
    for f in 1..jsonfmt::FLOAT_STYLES.len() as u8 {
        let st = Style { float: f, ..Style::plain() };
        out.push((format!("float={}", jsonfmt::FLOAT_STYLES[f as usize]), jsonfmt::render(&val, rng, &st)));
    }
    out.push(("all-escaped".to_string(), jsonfmt::render(&val, rng, &Style { escape: 16, ..Style::plain() })));
    for _ in 0..n_random {
        let st = Style::random(rng);
        out.push((st.label(), jsonfmt::render(&val, rng, &st)));
    }
    // keys spelled in their other accepted codec (bytes-hex instead of json-hex)
    if let Some(obj) = val.as_object() {
        let mut v2 = obj.clone();
        let mut changed = false;
        if let Some(Value::String(s)) = obj.get("aggregate_verification_key") {
            if let Ok(k) = ProtocolAggregateVerificationKeyForConcatenation::from_json_hex(s) {
                if let Ok(b) = k.to_bytes_hex() {
                    v2.insert("aggregate_verification_key".into(), json!(b));
                    changed = true;
                }
            }
        }
        if let Some(Value::String(s)) = obj.get("multi_signature") {
            if !s.is_empty() {
                if let Ok(k) = ProtocolMultiSignature::from_json_hex(s) {
                    if let Ok(b) = k.to_bytes_hex() {
                        v2.insert("multi_signature".into(), json!(b));
                        changed = true;
                    }
                }
            }
        }
        if changed {
            out.push(("keys-in-bytes-hex-codec".to_string(), serde_json::to_string(&Value::Object(v2)).unwrap()));
        }
    }
    out
}

fn variant_class(label: &str) -> &'static str {
    if label.starts_with("serde_json::") {
        "canonical text"
    } else if label.starts_with("float=") {
        "float spelling"
    } else if label == "all-escaped" {
        "escaped strings"
    } else if label == "keys-in-bytes-hex-codec" {
        "keys in bytes-hex codec"
    } else {
        "shuffled/whitespace/floats"
    }
}

pub fn part_c(cert: &Certificate, origin: &str, ctx: &ChainCtx, rng: &mut ChaCha20Rng, n_random: usize, mon: &mut Monitor) {
    let h0 = match cert.try_compute_hash() {
        Ok(h) => h,
        Err(_) => return,
    };
    let pm0 = cert.protocol_message.compute_hash();
    let d0 = dump(cert);
    let v0 = ctx.verdict(cert);
    mon.count(&format!("c.certificates.{origin}"));
    mon.count(&format!(
        "c.verdict_before.{}",
        match &v0 {
            Verdict::AcceptedGenesisOrFull | Verdict::AcceptedWithPrevious(_) => "accept",
            Verdict::Rejected(_) => "reject",
            Verdict::Panicked(_) => "panic",
            Verdict::Skipped => "skipped (claimed stake above total stake)",
        }
    ));
    mon.count(if cert.is_genesis() { "c.kind.genesis" } else { "c.kind.standard" });
    let msg = match CertificateMessage::try_from(cert.clone()) {
        Ok(m) => m,
        Err(e) => {
            mon.v(
                "C04 certificate cannot be converted to its API message",
                &format!("{e:#}"),
                json!({"part":"c","dump":d0}),
            );
            return;
        }
    };
    for (label, text) in text_variants(&msg, rng, n_random) {
        mon.eval();
        let class = variant_class(&label);
        mon.count(&format!("c.variants.{class}"));
        mon.nontrivial_str(&format!("c|{h0}|{}", sha_hex(&[text.as_bytes()])));
        let replay = || json!({"part":"c","variant":label,"text":text,"origin":origin,"expected_hash":h0});
        let msg2: CertificateMessage = match vcore::catch(|| serde_json::from_str::<CertificateMessage>(&text)) {
            Ok(Ok(m)) => m,
            Ok(Err(e)) => {
                mon.v(
                    &format!("C04 re-serialised certificate message is rejected by the JSON decoder ({class})"),
                    &format!("{label}: {e}; text: {}", clip(&text, 300)),
                    replay(),
                );
                continue;
            }
            Err(p) => {
                mon.v(
                    &format!("C04 decoding a re-serialised certificate message panics ({class})"),
                    &format!("{label}: {p}"),
                    replay(),
                );
                continue;
            }
        };
        let c2 = match vcore::catch(|| Certificate::try_from(msg2)) {
            Ok(Ok(c)) => c,
            Ok(Err(e)) => {
                mon.v(
                    &format!("C04 re-serialised certificate message does not convert back to a certificate ({class})"),
                    &format!("{label}: {e:#}"),
                    replay(),
                );
                continue;
            }
            Err(p) => {
                mon.v(
                    &format!("C04 converting a re-serialised certificate message panics ({class})"),
                    &format!("{label}: {p}"),
                    replay(),
                );
                continue;
            }
        };
        let h2 = c2.try_compute_hash().unwrap_or_else(|e| format!("ERR {e}"));
        let d2 = dump(&c2);
        let diff = dump_diff(&d0, &d2);
        let mut fams: Vec<String> = diff
            .iter()
            .map(|f| f.split('[').next().unwrap_or(f).split('@').next().unwrap_or(f).to_string())
            .collect();
        fams.sort();
        fams.dedup();
        let altered = if fams.is_empty() { "no field of the dump".to_string() } else { fams.join(", ") };
        let hash_changed = h2 != h0 || c2.hash != cert.hash;
        if hash_changed {
            mon.count(&format!("c.HASH_CHANGED.{class}"));
            mon.v(
                &format!("C04 wire round trip changes the certificate hash (altered by the round trip: {altered})"),
                &format!("{label}: hash {h0} -> {h2}, hash field {} -> {}, fields that differ: {diff:?}", cert.hash, c2.hash),
                replay(),
            );
        } else {
            mon.count("c.same_hash");
        }
        if c2.signed_message != cert.signed_message || c2.protocol_message.compute_hash() != pm0 {
            mon.v(
                &format!("C04 wire round trip changes the signed message (altered by the round trip: {altered})"),
                &format!("{label}: signed_message {} -> {}, protocol message digest {pm0} -> {}", cert.signed_message, c2.signed_message, c2.protocol_message.compute_hash()),
                replay(),
            );
        } else {
            mon.count("c.same_signed_message");
        }
        let v2 = if v0 == Verdict::Skipped { Verdict::Skipped } else { ctx.verdict(&c2) };
        if v2.class() != v0.class() {
            if hash_changed {
                // consequence of the changed hash, already reported
                mon.count("c.verdict_changed_together_with_hash");
            } else {
                mon.v(
                    &format!("C04 wire round trip changes the verification outcome (altered by the round trip: {altered})"),
                    &format!("{label}: before {v0:?}, after {v2:?}"),
                    replay(),
                );
            }
        } else {
            mon.count("c.same_verdict");
            if let (Verdict::Rejected(a), Verdict::Rejected(b)) = (&v0, &v2) {
                if a != b {
                    mon.count("c.diag.rejected_with_other_error_text");
                }
            }
        }
        for f in &diff {
            mon.count(&format!("c.diag.field_differs_after_round_trip.{}", f.split('[').next().unwrap_or(f)));
        }
        if diff.is_empty() {
            mon.count("c.all_fields_equal");
        }
        if mon.wants_sample() && rnd::chance(rng, 1, 60) {
            mon.sample(json!({"part":"c","origin":origin,"variant":label,"text":clip(&text, 600),"hash":h0,"verdict":v0.class()}));
        }
    }
    // integers spelled as floats are not value-preserving for serde_json's integer visitors:
    // recorded as a diagnostic only (the decoder refuses them, nothing is silently altered)
    {
        let plain = serde_json::to_string(&msg).unwrap();
        let e = cert.epoch.0;
        let needle = format!("\"epoch\":{e},");
        if e < (1 << 53) && plain.matches(&needle).count() >= 1 {
            let t = plain.replacen(&needle, &format!("\"epoch\":{e}.0,"), 1);
            match serde_json::from_str::<CertificateMessage>(&t) {
                Ok(m2) => {
                    let same = Certificate::try_from(m2).ok().and_then(|c| c.try_compute_hash().ok()) == Some(h0.clone());
                    mon.count(if same { "c.diag.integer_as_float_accepted_same_hash" } else { "c.diag.integer_as_float_accepted_OTHER_hash" });
                }
                Err(_) => mon.count("c.diag.integer_as_float_refused"),
            }
        }
    }
}

// ---------------------------------------------------------------------------------------------

pub struct Shared {
    pub chains: Vec<BaseChain>,
    pub pools: Pools,
}

pub fn prepare(mon: &mut Monitor) -> Option<Shared> {
    let chains = match vcore::catch(build_base_chains) {
        Ok(c) => c,
        Err(p) => {
            mon.inconclusive(&format!("certificate chain builder panicked: {p}"));
            return None;
        }
    };
    let pools = build_pools(&chains);
    for a in &pools.avks {
        if !avk_shape_known(a) {
            mon.inconclusive("aggregate verification key JSON has fields the monitor does not know: the mutator table must learn them");
            return None;
        }
    }
    // self-check: the untouched chains verify
    for ch in &chains {
        let ctx = ChainCtx::new(&ch.certs, &ch.verifier);
        for c in &ch.certs {
            match ctx.verdict(c) {
                Verdict::AcceptedGenesisOrFull | Verdict::AcceptedWithPrevious(_) => mon.count("setup.base_chain_certificate_accepted"),
                v => {
                    mon.inconclusive(&format!("base chain '{}' does not verify: {v:?}", ch.label));
                    return None;
                }
            }
        }
    }
    mon.extra.insert(
        "base_chains".into(),
        json!(chains.iter().map(|c| json!({"label": c.label, "certificates": c.certs.len()})).collect::<Vec<_>>()),
    );
    mon.extra.insert("pools".into(), json!({"aggregate_verification_keys": pools.avks.len(), "multi_signatures": pools.msigs.len(), "genesis_signatures": pools.gsigs.len()}));
    Some(Shared { chains, pools })
}

/// a tampered copy of a chain certificate (so that reject verdicts are exercised too)
fn tamper(c: &Certificate, rng: &mut ChaCha20Rng, pools: &Pools) -> Option<(String, Certificate)> {
    let ms = mutants(c, rng, pools);
    if ms.is_empty() {
        return None;
    }
    let i = rnd::usize_below(rng, ms.len());
    let mu = ms.into_iter().nth(i)?;
    let mut t = mu.cert;
    let rehash = rnd::chance(rng, 1, 2);
    if rehash {
        t.hash = t.try_compute_hash().ok()?;
    }
    Some((format!("{}{}", mu.id.split('/').next().unwrap_or(""), if rehash { " (hash recomputed)" } else { "" }), t))
}

pub fn run_shard(shard: u64, mon: &mut Monitor, sh: &Shared, per_shard: u64) {
    let mut rng = mon.rng("c04", shard);
    for case in 0..per_shard {
        // a real chain, re-labelled
        let base = &sh.chains[(case as usize + shard as usize) % sh.chains.len()];
        let chain = randomise_chain(base, &mut rng);
        let ctx = ChainCtx::new(&chain, &base.verifier);
        for c in &chain {
            part_a(c, "chain", &mut rng, &sh.pools, mon);
            part_c(c, "chain", &ctx, &mut rng, 3, mon);
            if let Verdict::Rejected(e) = ctx.verdict(c) {
                mon.inconclusive(&format!("re-labelled chain certificate rejected by the verifier (harness error?): {e}"));
            }
        }
        // tampered members of that chain: rejected before and after
        for _ in 0..4 {
            let c = rnd::pick(&mut rng, &chain);
            if let Some((_what, t)) = tamper(c, &mut rng, &sh.pools) {
                part_c(&t, "chain-tampered", &ctx, &mut rng, 1, mon);
            }
        }
        // synthetic certificates: everything random incl. u64 extremes in epoch and beacons
        for _ in 0..4 {
            let c = synthetic_certificate(&mut rng, &sh.pools);
            part_a(&c, "synthetic", &mut rng, &sh.pools, mon);
            part_c(&c, "synthetic", &ctx, &mut rng, 2, mon);
        }
        for _ in 0..6 {
            part_b(&mut rng, &sh.pools, mon);
        }
        let _ = rng.next_u32();
    }
}

pub const RULE: &str = "certificates = real chains of the repository's CertificateChainBuilder (2 base chains: 5 certificates 1/epoch master chaining; 7 certificates 2/epoch sequential; genesis + standard) re-labelled per case with random metadata (arbitrary UTF-8 network/version, 0-20 signers with u64-extreme stakes, timestamps over the whole i64-nanosecond range with sub-second parts, every SignedEntityType variant with u64-extreme beacons) and re-hashed/re-linked so that the verifier still accepts them, tampered members of those chains, and fully synthetic certificates (random epoch, parameters with phi on / next to U8F24 grid points and rounding ties, random protocol messages over all part keys, genesis or multi signature). (a) every mutator of the table in c04.rs::mutants (generated against an exhaustive destructuring of Certificate, CertificateMetadata, StakeDistributionParty, ProtocolParameters, ProtocolMessage, every SignedEntityType / CertificateSignature variant) applied to every certificate; non-trivial = the mutant's field dump differs from the original's in an input field (phi: at U8F24 precision), distinct = distinct (mutator, original hash, mutant dump). (b) protocol-message pairs: random pairs and near-collision constructions (characters moved between adjacent values, parts dropped / added / folded into a value, values exchanged or re-filed, key-name extension, non-canonical spellings); non-trivial = both messages inside the honest grammar (lower-case even-length hex, canonical decimal u64) and not equal. (c) each certificate -> CertificateMessage -> serde_json text -> re-serialised text variants (key order, whitespace, 6 float spellings, \\u escapes, keys in the bytes-hex codec) -> CertificateMessage -> Certificate, compared on try_compute_hash, hash field, signed message, protocol message digest and MithrilCertificateVerifier::verify_certificate verdict against the chain; distinct = distinct (certificate hash, text).";

pub const ASSUMPTIONS: [&str; 5] = [
    "SHA-256 collision resistance is not attacked: a repeated hash is taken as 'the changed field is not an input'",
    "the fixed crate's U8F24::from_num defines 'fixed-point precision' of phi",
    "ancillary prover/verifier data cannot be present in this build (uninhabited enums without future_snark); an empty match breaks the harness build when a variant appears",
    "single-field = one leaf field of the destructuring; two-field boundary shifts (network|protocol_version) and out-of-range timestamps are diagnostics, not violations",
    "integer fields are kept in integer spelling (serde_json refuses 1.0 for u64; counted as diagnostic)",
];

/// `--replay FILE`: re-judge the stored case
pub fn replay(_args: &vcore::Args, file: &std::path::Path) -> ! {
    let doc: Value = serde_json::from_slice(&std::fs::read(file).expect("replay file")).expect("replay JSON");
    let r = &doc["replay"];
    let to_cert = |v: &Value| -> Option<Certificate> {
        let m: CertificateMessage = serde_json::from_value(v.clone()).ok()?;
        Certificate::try_from(m).ok()
    };
    match r["part"].as_str() {
        Some("a") => {
            let (Some(c), Some(m)) = (to_cert(&r["certificate"]), to_cert(&r["mutant"])) else {
                println!("INCONCLUSIVE property=C04 replay file does not hold two decodable certificates");
                std::process::exit(2)
            };
            let (h0, h1) = (c.try_compute_hash().unwrap_or_default(), m.try_compute_hash().unwrap_or_default());
            let diff = dump_diff(&dump(&c), &dump(&m));
            println!("[C04 replay] mutator {}: fields that differ {:?}; hashes {h0} / {h1}", r["mutator"], diff);
            let inputs_differ = diff.iter().any(|f| f != "hash");
            if inputs_differ && h0 == h1 {
                println!("VIOLATION property=C04 replay={}", file.display());
                std::process::exit(1);
            }
            println!("HELD property=C04 on the replayed case");
            std::process::exit(0);
        }
        Some("b") => {
            let mk = |v: &Value| -> ProtocolMessage {
                let mut pm = ProtocolMessage::new();
                if let Some(o) = v["parts"].as_object() {
                    for k in all_part_keys() {
                        if let Some(Value::String(s)) = o.get(&k.to_string()) {
                            pm.set_message_part(k, s.clone());
                        }
                    }
                }
                pm
            };
            let (m1, m2) = (mk(&r["m1"]), mk(&r["m2"]));
            println!("[C04 replay] digests {} / {}", m1.compute_hash(), m2.compute_hash());
            if m1 != m2 && m1.compute_hash() == m2.compute_hash() && pm_in_grammar(&m1) && pm_in_grammar(&m2) {
                println!("VIOLATION property=C04 replay={}", file.display());
                std::process::exit(1);
            }
            println!("HELD property=C04 on the replayed case");
            std::process::exit(0);
        }
        Some("c") => {
            let text = r["text"].as_str().unwrap_or("");
            let expected = r["expected_hash"].as_str().unwrap_or("");
            let got = serde_json::from_str::<CertificateMessage>(text)
                .ok()
                .and_then(|m| Certificate::try_from(m).ok())
                .and_then(|c| c.try_compute_hash().ok());
            println!("[C04 replay] variant {}: expected hash {expected}, after the round trip {:?}", r["variant"], got);
            if got.as_deref() != Some(expected) {
                println!("VIOLATION property=C04 replay={}", file.display());
                std::process::exit(1);
            }
            println!("HELD property=C04 on the replayed case (hash only; the verdict comparison needs the chain of the run)");
            std::process::exit(0);
        }
        _ => {
            println!("INCONCLUSIVE property=C04 unknown replay file");
            std::process::exit(2)
        }
    }
}

/// debugging aid (MON_WIRE_TRACE_SLOW=1): prints the certificate of any verifier call that has
/// been running for more than 5 s
pub mod slow_trace {
    use std::collections::HashMap;
    use std::sync::{Mutex, Once};
    use std::thread::ThreadId;
    use std::time::Instant;
    static SLOTS: Mutex<Option<HashMap<ThreadId, (Instant, String, bool)>>> = Mutex::new(None);
    static START: Once = Once::new();
    pub fn enter(desc: String) {
        START.call_once(|| {
            std::thread::spawn(|| loop {
                std::thread::sleep(std::time::Duration::from_secs(1));
                if let Ok(mut g) = SLOTS.lock() {
                    if let Some(m) = g.as_mut() {
                        for (_, (t, d, printed)) in m.iter_mut() {
                            if !*printed && t.elapsed().as_secs() >= 5 {
                                eprintln!("SLOW verifier call (>5s): {d}");
                                *printed = true;
                            }
                        }
                    }
                }
            });
        });
        let mut g = SLOTS.lock().unwrap();
        g.get_or_insert_with(HashMap::new).insert(std::thread::current().id(), (Instant::now(), desc, false));
    }
    pub fn leave() {
        let mut g = SLOTS.lock().unwrap();
        if let Some(m) = g.as_mut() {
            m.remove(&std::thread::current().id());
        }
    }
}

/// hidden helper: `mon-wire C04-time-verify <CertificateMessage.json>` times the multi-signature
/// verification of one certificate (used to document the slow-lottery side finding)
pub fn time_verify_main(argv: &[String]) -> ! {
    let m: CertificateMessage = serde_json::from_slice(&std::fs::read(&argv[0]).expect("file")).expect("CertificateMessage JSON");
    let c = Certificate::try_from(m).expect("certificate");
    println!("claimed_stake_guard = {}", claimed_stake_guard(&c));
    let CertificateSignature::MultiSignature(_, ms) = &c.signature else { std::process::exit(2) };
    let t = std::time::Instant::now();
    let r = ms.verify(
        c.signed_message.as_bytes(),
        &c.create_aggregate_verification_key(),
        &c.metadata.protocol_parameters.clone().into(),
        None,
        None,
    );
    println!("verify -> {:?} after {:.1}s", r.map_err(|e| e.to_string()), t.elapsed().as_secs_f64());
    std::process::exit(0)
}
