//! C05 - decoding untrusted bytes never crashes the process and round-trips honest values.
//!
//! parent (`mon-wire C05`): one child process per shard; classifies exit status, watchdog,
//!   restarts after the offending input, merges the children's reports.
//! child  (`mon-wire C05-child ...`): runs the decode workload on a thread with a fixed stack,
//!   persists the current input before every call, counts outcomes.
//! single (`mon-wire C05-one <entry> <file>`): one input alone (reproduction, 60 s rule, replay).
use serde::{Deserialize, Serialize};
use serde_json::{json, Value};
use std::collections::BTreeMap;
use std::io::{Read, Seek, SeekFrom, Write};
use std::os::fd::AsRawFd;
use std::path::{Path, PathBuf};
use std::process::{Command, Stdio};
use std::sync::atomic::Ordering;
use std::time::{Duration, Instant};
use vcore::{Args, Monitor, Tier};

use crate::alloc2;
use crate::corpus::{self, Item};
use crate::entry::{self, Entry, Out};
use crate::util::{clip, hash8};

/// stack of the decoding thread = default main-thread stack on Linux
const STACK: usize = 8 << 20;
const FLUSH_EVERY: u64 = 200;
const BIG_ALLOC: usize = 16 << 20;
const WATCHDOG: Duration = Duration::from_secs(10);
const ALONE_LIMIT: Duration = Duration::from_secs(60);

#[derive(Serialize, Deserialize, Clone, Debug, Default)]
pub struct Viol {
    pub signature: String,
    pub what: String,
    pub replay: Value,
    pub diagnostic: bool,
}

#[derive(Serialize, Deserialize, Clone, Debug, Default)]
pub struct Report {
    /// every item before (round, idx) is accounted for in this report
    pub pos: (u64, u64),
    pub done: bool,
    pub evaluations: u64,
    pub counters: BTreeMap<String, u64>,
    pub violations: Vec<Viol>,
    pub samples: Vec<Value>,
    pub notes: Vec<String>,
}

impl Report {
    fn count(&mut self, k: &str) {
        *self.counters.entry(k.to_string()).or_insert(0) += 1;
    }
    fn violation(&mut self, v: Viol) {
        let key = format!("{}{}", if v.diagnostic { "diag|" } else { "viol|" }, v.signature);
        self.count(&key);
        // the hex-zeros inputs etc. can be large: keep replay inputs below 64 KiB when a smaller
        // witness of the same signature is already stored
        let same = self.violations.iter().filter(|x| x.signature == v.signature).count();
        if same < 2 {
            self.violations.push(v);
        }
    }
}

thread_local! {
    static P_CAPTURING: std::cell::Cell<bool> = const { std::cell::Cell::new(false) };
    static P_LAST: std::cell::RefCell<Option<(String, String, Option<String>)>> = const { std::cell::RefCell::new(None) };
    /// allocation peak at the moment of the panic (the backtrace capture of the hook allocates)
    static P_PEAK: std::cell::Cell<usize> = const { std::cell::Cell::new(0) };
}

/// Like vcore::install_panic_hook, plus: the first stack frame inside a crate of the repository
/// (panics raised inside std - capacity overflow, slice indexing helpers - carry a std location).
pub fn install_hook() {
    let default = std::panic::take_hook();
    std::panic::set_hook(Box::new(move |info| {
        if P_CAPTURING.with(|c| c.get()) {
            P_PEAK.with(|p| p.set(vcore::alloc::peak()));
            let big = alloc2::take_big_site();
            let loc = info.location().map(|l| format!("{}:{}", l.file(), l.line())).unwrap_or_else(|| "?".into());
            let msg = if let Some(s) = info.payload().downcast_ref::<&str>() {
                s.to_string()
            } else if let Some(s) = info.payload().downcast_ref::<String>() {
                s.clone()
            } else {
                "<non-string panic>".into()
            };
            let frame = alloc2::repo_frame(&std::backtrace::Backtrace::force_capture().to_string()).map(|s| clean_symbol(&s));
            P_LAST.with(|p| *p.borrow_mut() = Some((loc, msg, frame)));
            // forget allocations made by the capture itself, keep what the decoder did
            let _ = alloc2::take_big_site();
            if let Some((size, sym)) = big {
                alloc2::restore_big_site(size, sym);
            }
        } else {
            default(info);
        }
    }));
}

/// (location, message, first repository frame)
fn pcatch<R>(f: impl FnOnce() -> R) -> Result<R, (String, String, Option<String>)> {
    let prev = P_CAPTURING.with(|c| c.replace(true));
    let r = std::panic::catch_unwind(std::panic::AssertUnwindSafe(f));
    P_CAPTURING.with(|c| c.set(prev));
    match r {
        Ok(v) => Ok(v),
        Err(_) => Err(P_LAST.with(|p| p.borrow_mut().take()).unwrap_or_else(|| ("?".into(), "panic".into(), None))),
    }
}

/// stable spelling of a panic location: std paths without the toolchain hash, plus the repository
/// function the panic surfaced in when the location itself is outside the repository
fn stable_location(loc: &str, frame: &Option<String>) -> String {
    let in_std = loc.starts_with("/rustc/") || loc.contains("/rustlib/") || loc.contains("/.cargo/registry/");
    let loc2 = if let Some(rest) = loc.strip_prefix("/rustc/") {
        rest.split_once('/').map(|(_, r)| r.to_string()).unwrap_or_else(|| loc.to_string())
    } else if let Some(i) = loc.find("/.cargo/registry/src/") {
        loc[i + "/.cargo/registry/src/".len()..].split_once('/').map(|(_, r)| r.to_string()).unwrap_or_else(|| loc.to_string())
    } else {
        loc.to_string()
    };
    match (in_std, frame) {
        (true, Some(f)) => format!("{loc2} in {f}"),
        _ => loc2,
    }
}

pub enum Observed {
    Value(String),
    Error,
    /// (stable location, message)
    Panic(String, String),
}

pub struct CallResult {
    pub obs: Observed,
    pub peak: usize,
    pub big_site: Option<(usize, String)>,
}

/// one decode call under the observers (panic capture, allocation peak)
pub fn call(e: &Entry, input: &[u8], want_canon: bool) -> CallResult {
    let _ = alloc2::take_big_site();
    vcore::alloc::reset_peak();
    let r = pcatch(|| (e.f)(input, want_canon));
    let peak = if r.is_err() { P_PEAK.with(|p| p.get()) } else { vcore::alloc::peak() };
    let big_site = alloc2::take_big_site();
    let obs = match r {
        Ok(Out::Value(c)) => Observed::Value(c),
        Ok(Out::Error) => Observed::Error,
        Err((loc, msg, frame)) => Observed::Panic(stable_location(&loc, &frame), msg),
    };
    CallResult { obs, peak, big_site }
}

fn strip_world(label: &str) -> String {
    // "w3:AggregateSignature/legacy | ..." -> without the world tag
    match label.split_once(':') {
        Some((w, rest)) if w.starts_with('w') && w[1..].chars().all(|c| c.is_ascii_digit()) => rest.to_string(),
        _ => label.to_string(),
    }
}

fn base_of(class: &str) -> String {
    // "w0:Parameters#3/legacy | ..." -> "Parameters/legacy"
    let b = strip_world(class.split(" | ").next().unwrap_or(class));
    let mut out = String::new();
    let mut chars = b.chars().peekable();
    while let Some(c) = chars.next() {
        if c == '#' {
            while chars.peek().map(|d| d.is_ascii_digit()).unwrap_or(false) {
                chars.next();
            }
        } else {
            out.push(c);
        }
    }
    out
}

fn clean_symbol(s: &str) -> String {
    // drop a trailing ::h0123456789abcdef
    if let Some(i) = s.rfind("::h") {
        let tail = &s[i + 3..];
        if tail.len() == 16 && tail.chars().all(|c| c.is_ascii_hexdigit()) {
            return s[..i].to_string();
        }
    }
    s.to_string()
}

fn replay_json(e: &Entry, it_class: &str, input: &[u8]) -> Value {
    json!({"entry": e.name, "class": it_class, "input_len": input.len(), "input_hex": hex::encode(input)})
}

/// judge one executed item; updates the report
pub fn judge(rep: &mut Report, e: &Entry, it: &Item, r: &CallResult) {
    rep.evaluations += 1;
    let oc = match &r.obs {
        Observed::Value(_) => "value",
        Observed::Error => "error",
        Observed::Panic(_, _) => "panic",
    };
    rep.count(&format!("ep\t{}\t{oc}", e.name));
    let kind = if it.honest { "honest" } else if it.structured { "structured" } else { "random" };
    rep.count(&format!("inputs.{kind}.{oc}"));
    if it.structured && !it.honest {
        // mutator family = text before the first ":=" / " x" detail
        let mclass = it.class.split(" | ").nth(1).unwrap_or("");
        let fam = mclass.split(" := ").next().unwrap_or(mclass);
        let fam = fam.split(" x").next().unwrap_or(fam);
        rep.count(&format!("mutator.{}.{oc}", fam));
    }
    if let Observed::Panic(loc, p) = &r.obs {
        rep.violation(Viol {
            signature: format!("C05 decoder panic {} @ {}", e.name, loc),
            what: format!("panic '{p}'; input class: {}; input ({} bytes): {}", it.class, it.input.len(), clip(&hex::encode(&it.input), 160)),
            replay: replay_json(e, &it.class, &it.input),
            diagnostic: e.diagnostic,
        });
    }
    if r.peak > BIG_ALLOC && r.peak > 256usize.saturating_mul(it.input.len().max(1)) {
        rep.count(&format!("ep\t{}\tbigalloc", e.name));
        let site = r.big_site.as_ref().map(|(_, s)| clean_symbol(s)).unwrap_or_else(|| "?".into());
        rep.violation(Viol {
            signature: format!("C05 allocation out of proportion {} @ {}", e.name, site),
            what: format!("single request of {} bytes for an input of {} bytes; input class: {}; input: {}", r.peak, it.input.len(), it.class, clip(&hex::encode(&it.input), 160)),
            replay: replay_json(e, &it.class, &it.input),
            diagnostic: e.diagnostic,
        });
    }
    if it.honest {
        match &r.obs {
            Observed::Value(c) => {
                if let Some(exp) = &it.expect {
                    // same JSON document (key order of the two writers may differ)
                    let same = **exp == *c
                        || matches!((serde_json::from_str::<Value>(exp), serde_json::from_str::<Value>(c)), (Ok(a), Ok(b)) if a == b);
                    if same {
                        rep.count("roundtrip.equal");
                    } else {
                        rep.count("roundtrip.DIFFERENT");
                        rep.violation(Viol {
                            signature: format!("C05 honest value does not round-trip {} ({})", e.name, base_of(&it.class)),
                            what: format!("decoded value re-encodes as {} but the original is {}", clip(c, 200), clip(exp, 200)),
                            replay: replay_json(e, &it.class, &it.input),
                            diagnostic: e.diagnostic,
                        });
                    }
                } else {
                    rep.count("roundtrip.decoded (no canonical form through this door)");
                }
            }
            Observed::Error => {
                rep.count("roundtrip.REJECTED");
                rep.violation(Viol {
                    signature: format!("C05 honest encoding rejected {} ({})", e.name, base_of(&it.class)),
                    what: format!("input class: {}; input: {}", it.class, clip(&hex::encode(&it.input), 200)),
                    replay: replay_json(e, &it.class, &it.input),
                    diagnostic: e.diagnostic,
                });
            }
            Observed::Panic(_, _) => {}
        }
    }
    if rep.samples.len() < 2 && rep.evaluations % 997 == 3 {
        rep.samples.push(json!({"entry": e.name, "class": it.class, "input": clip(&hex::encode(&it.input), 200), "outcome": oc, "peak_single_alloc": r.peak}));
    }
}

// ---------------------------------------------------------------------------------------------
// child

struct ChildCfg {
    shard: u64,
    n_shards: u64,
    seed: u64,
    tier: Tier,
    start: (u64, u64),
    dir: PathBuf,
    skip: Vec<(u64, u64)>,
}

fn parse_tier(s: &str) -> Tier {
    if s == "thorough" {
        Tier::Thorough
    } else {
        Tier::Quick
    }
}

fn write_report(path: &Path, rep: &Report) {
    let tmp = path.with_extension("tmp");
    if std::fs::write(&tmp, serde_json::to_vec(rep).unwrap()).is_ok() {
        let _ = std::fs::rename(&tmp, path);
    }
}

pub fn child_main(argv: &[String]) -> ! {
    if argv.len() < 7 {
        eprintln!("usage: mon-wire C05-child <shard> <n_shards> <seed> <tier> <start_round> <start_idx> <dir> [skip r:i,...]");
        std::process::exit(2);
    }
    let cfg = ChildCfg {
        shard: argv[0].parse().unwrap(),
        n_shards: argv[1].parse().unwrap(),
        seed: argv[2].parse().unwrap(),
        tier: parse_tier(&argv[3]),
        start: (argv[4].parse().unwrap(), argv[5].parse().unwrap()),
        dir: PathBuf::from(&argv[6]),
        skip: argv
            .get(7)
            .map(|s| s.split(',').filter_map(|p| p.split_once(':').and_then(|(a, b)| Some((a.parse().ok()?, b.parse().ok()?)))).collect())
            .unwrap_or_default(),
    };
    install_hook();
    let h = std::thread::Builder::new().name("decode".into()).stack_size(STACK).spawn(move || child_work(cfg)).expect("spawn decode thread");
    match h.join() {
        Ok(()) => std::process::exit(0),
        Err(_) => std::process::exit(3),
    }
}

fn child_work(cfg: ChildCfg) {
    let entries = entry::entries();
    let bud = corpus::budget(cfg.tier);
    let cur_path = cfg.dir.join(format!("cur-{}", cfg.shard));
    let out_path = cfg.dir.join(format!("out-{}.json", cfg.shard));
    let hash_path = cfg.dir.join(format!("hashes-{}.bin", cfg.shard));
    let marker_path = cfg.dir.join(format!("marker-{}", cfg.shard));
    let marker = std::fs::OpenOptions::new().create(true).append(true).open(&marker_path).expect("marker file");
    vcore::alloc::MARKER_FD.store(marker.as_raw_fd() as usize, Ordering::SeqCst);
    let mut cur = std::fs::OpenOptions::new().create(true).write(true).truncate(true).open(&cur_path).expect("cur file");
    let mut hashes = std::fs::OpenOptions::new().create(true).append(true).open(&hash_path).expect("hash file");
    let mut rep = Report { pos: cfg.start, ..Default::default() };
    // signal "alive, generating" to the watchdog
    let _ = cur.write_all(b"0 generating\n");
    let _ = cur.flush();

    let corp = corpus::build_corpus(&entries, cfg.seed, bud.n_worlds);
    let total_rounds = 1 + bud.random_rounds;
    let mut seq: u64 = 0;
    let mut hash_buf: Vec<u8> = vec![];
    for round in cfg.start.0..total_rounds {
        let items: Vec<Item> = if round == 0 {
            let (items, total) = corpus::structured_items(&corp, &entries, cfg.seed, cfg.tier, cfg.shard, cfg.n_shards);
            if cfg.start == (0, 0) {
                rep.counters.insert("workload.structured_items_of_shard".into(), items.len() as u64);
                if cfg.shard == 0 {
                    rep.counters.insert("workload.structured_items_total".into(), total);
                }
            }
            items
        } else {
            corpus::random_items(&corp, &entries, cfg.seed, cfg.tier, cfg.shard, round)
        };
        for (idx, it) in items.iter().enumerate() {
            let idx = idx as u64;
            if (round, idx) < cfg.start {
                continue;
            }
            if cfg.skip.contains(&(round, idx)) {
                continue;
            }
            let e = &entries[it.entry];
            // persist the input BEFORE the call (one reused file)
            seq += 1;
            let header = format!("{seq} {round} {idx} {}\n{}\n", it.entry, it.class.replace('\n', " "));
            let _ = cur.seek(SeekFrom::Start(0));
            let _ = cur.write_all(header.as_bytes());
            let _ = cur.write_all(&it.input);
            let _ = cur.set_len((header.len() + it.input.len()) as u64);
            let _ = cur.flush();

            let r = call(e, &it.input, it.expect.is_some());
            judge(&mut rep, e, it, &r);
            // distinct non-trivial = distinct (entry, input) that is honest / structure-aware, or decoded
            if it.structured || matches!(r.obs, Observed::Value(_)) {
                hash_buf.extend_from_slice(&hash8(&[e.name.as_bytes(), &it.input]));
            }
            rep.pos = (round, idx + 1);
            if rep.evaluations % FLUSH_EVERY == 0 {
                let _ = hashes.write_all(&hash_buf);
                hash_buf.clear();
                write_report(&out_path, &rep);
            }
        }
        rep.pos = (round + 1, 0);
        let _ = hashes.write_all(&hash_buf);
        hash_buf.clear();
        write_report(&out_path, &rep);
    }
    rep.done = true;
    write_report(&out_path, &rep);
}

// ---------------------------------------------------------------------------------------------
// single input

/// `mon-wire C05-one <entry name> <input file> [marker file]` -> JSON line on stdout
pub fn one_main(argv: &[String]) -> ! {
    if argv.len() < 2 {
        eprintln!("usage: mon-wire C05-one <entry> <input-file> [marker-file]");
        std::process::exit(2);
    }
    let name = argv[0].clone();
    let input = std::fs::read(&argv[1]).expect("input file");
    let marker = argv.get(2).map(|p| std::fs::OpenOptions::new().create(true).append(true).open(p).expect("marker file"));
    if let Some(m) = &marker {
        vcore::alloc::MARKER_FD.store(m.as_raw_fd() as usize, Ordering::SeqCst);
    }
    install_hook();
    let h = std::thread::Builder::new()
        .name("decode".into())
        .stack_size(STACK)
        .spawn(move || {
            let entries = entry::entries();
            let Some(i) = entry::index_of(&entries, &name) else {
                println!("{}", json!({"outcome":"unknown-entry"}));
                return;
            };
            let t = Instant::now();
            let r = call(&entries[i], &input, true);
            let (oc, detail) = match &r.obs {
                Observed::Value(c) => ("value", clip(c, 300)),
                Observed::Error => ("error", String::new()),
                Observed::Panic(l, p) => ("panic", format!("{l}: {p}")),
            };
            println!(
                "{}",
                json!({"outcome": oc, "detail": detail, "peak_single_alloc": r.peak, "big_alloc_site": r.big_site.map(|(_, s)| s), "seconds": t.elapsed().as_secs_f64()})
            );
        })
        .unwrap();
    let _ = h.join();
    std::process::exit(0)
}

// ---------------------------------------------------------------------------------------------
// parent

#[derive(Debug, Clone)]
struct CurInput {
    round: u64,
    idx: u64,
    entry: usize,
    class: String,
    input: Vec<u8>,
}

fn read_seq(path: &Path) -> Option<String> {
    let mut f = std::fs::File::open(path).ok()?;
    let mut b = [0u8; 48];
    let n = f.read(&mut b).ok()?;
    let s = String::from_utf8_lossy(&b[..n]).to_string();
    Some(s.split('\n').next().unwrap_or("").to_string())
}

fn read_cur(path: &Path) -> Option<CurInput> {
    let b = std::fs::read(path).ok()?;
    let nl1 = b.iter().position(|c| *c == b'\n')?;
    let nl2 = nl1 + 1 + b[nl1 + 1..].iter().position(|c| *c == b'\n')?;
    let head = std::str::from_utf8(&b[..nl1]).ok()?;
    let mut p = head.split(' ');
    let _seq: u64 = p.next()?.parse().ok()?;
    let round = p.next()?.parse().ok()?;
    let idx = p.next()?.parse().ok()?;
    let entry = p.next()?.parse().ok()?;
    Some(CurInput { round, idx, entry, class: String::from_utf8_lossy(&b[nl1 + 1..nl2]).to_string(), input: b[nl2 + 1..].to_vec() })
}

#[derive(Debug, Clone)]
enum AloneOutcome {
    /// finished: JSON of C05-one, seconds
    Finished(Value, f64),
    Crashed(String),
    StillRunning,
}

fn describe_status(st: &std::process::ExitStatus) -> String {
    use std::os::unix::process::ExitStatusExt;
    match (st.code(), st.signal()) {
        (_, Some(s)) => format!("signal {s}"),
        (Some(c), _) => format!("exit code {c}"),
        _ => "unknown status".into(),
    }
}

/// marker + stderr -> (failure class, site)
fn crash_class(marker: &str, stderr: &str, status: &str) -> (String, Option<String>) {
    let site = marker.lines().rev().find_map(|l| l.strip_prefix("ALLOCSITE ")).and_then(|l| l.split_once(' ').map(|(_, s)| clean_symbol(s.trim())));
    if marker.contains("BIGALLOC") || stderr.contains("memory allocation of") {
        return ("allocation request above 1 GiB".into(), site);
    }
    if stderr.contains("has overflowed its stack") || stderr.contains("stack overflow") || stderr.contains("stack-overflow") {
        return ("stack overflow".into(), None);
    }
    // sanitizer builds: the report's headline is the failure class
    if let Some(l) = stderr.lines().find(|l| l.contains("ERROR: AddressSanitizer") || l.contains("ERROR: LeakSanitizer")) {
        let what = l.split("Sanitizer:").nth(1).unwrap_or("").trim();
        let kind = what.split_whitespace().next().unwrap_or("report");
        return (format!("AddressSanitizer {kind}"), None);
    }
    (status.to_string(), None)
}

fn run_alone(exe: &Path, dir: &Path, tag: &str, entry: &str, input: &[u8], limit: Duration) -> (AloneOutcome, String, String) {
    let inp = dir.join(format!("alone-{tag}.in"));
    let marker = dir.join(format!("alone-{tag}.marker"));
    let errp = dir.join(format!("alone-{tag}.err"));
    let _ = std::fs::write(&inp, input);
    let _ = std::fs::write(&marker, b"");
    let errf = std::fs::File::create(&errp).expect("stderr file");
    let t = Instant::now();
    let mut ch = match Command::new(exe).arg("C05-one").arg(entry).arg(&inp).arg(&marker).stdout(Stdio::piped()).stderr(errf).spawn() {
        Ok(c) => c,
        Err(e) => return (AloneOutcome::Crashed(format!("spawn failed: {e}")), String::new(), String::new()),
    };
    let st = loop {
        match ch.try_wait() {
            Ok(Some(st)) => break Some(st),
            Ok(None) => {
                if t.elapsed() > limit {
                    let _ = ch.kill();
                    let _ = ch.wait();
                    break None;
                }
                std::thread::sleep(Duration::from_millis(20));
            }
            Err(_) => break None,
        }
    };
    let mut out = String::new();
    if let Some(mut so) = ch.stdout.take() {
        let _ = so.read_to_string(&mut out);
    }
    let m = std::fs::read_to_string(&marker).unwrap_or_default();
    let e = std::fs::read_to_string(&errp).unwrap_or_default();
    let oc = match st {
        None => AloneOutcome::StillRunning,
        Some(st) if st.success() => match serde_json::from_str::<Value>(out.trim()) {
            Ok(v) => AloneOutcome::Finished(v, t.elapsed().as_secs_f64()),
            Err(_) => AloneOutcome::Crashed(format!("no result line ({})", describe_status(&st))),
        },
        Some(st) => AloneOutcome::Crashed(describe_status(&st)),
    };
    (oc, m, e)
}

struct ShardOutcome {
    reports: Vec<Report>,
    /// process-level findings (abort / no termination), already phrased
    viols: Vec<Viol>,
    counters: BTreeMap<String, u64>,
    inconclusive: Vec<String>,
    hashes: Vec<u8>,
}

fn shard_proc(exe: &Path, dir: &Path, entries: &[Entry], shard: u64, n_shards: u64, seed: u64, tier: Tier) -> ShardOutcome {
    let mut o = ShardOutcome { reports: vec![], viols: vec![], counters: BTreeMap::new(), inconclusive: vec![], hashes: vec![] };
    let cur_path = dir.join(format!("cur-{shard}"));
    let out_path = dir.join(format!("out-{shard}.json"));
    let marker_path = dir.join(format!("marker-{shard}"));
    let err_path = dir.join(format!("err-{shard}.txt"));
    let hash_path = dir.join(format!("hashes-{shard}.bin"));
    let mut start = (0u64, 0u64);
    let mut skip: Vec<(u64, u64)> = vec![];
    let mut restarts = 0u64;
    let bump = |o: &mut ShardOutcome, k: &str| *o.counters.entry(k.to_string()).or_insert(0) += 1;
    loop {
        let _ = std::fs::remove_file(&out_path);
        let _ = std::fs::remove_file(&cur_path);
        let _ = std::fs::write(&marker_path, b"");
        let errf = std::fs::File::create(&err_path).expect("stderr file");
        let skip_arg = skip.iter().map(|(a, b)| format!("{a}:{b}")).collect::<Vec<_>>().join(",");
        let mut ch = match Command::new(exe)
            .arg("C05-child")
            .args([shard.to_string(), n_shards.to_string(), seed.to_string(), tier.as_str().to_string(), start.0.to_string(), start.1.to_string()])
            .arg(dir)
            .arg(&skip_arg)
            .stdout(Stdio::null())
            .stderr(errf)
            .spawn()
        {
            Ok(c) => c,
            Err(e) => {
                o.inconclusive.push(format!("cannot spawn child for shard {shard}: {e}"));
                return o;
            }
        };
        bump(&mut o, "process.children_started");
        let mut last_seq: Option<String> = None;
        let mut last_change = Instant::now();
        let status = loop {
            match ch.try_wait() {
                Ok(Some(st)) => break Some(st),
                Ok(None) => {}
                Err(_) => break None,
            }
            std::thread::sleep(Duration::from_millis(25));
            let s = read_seq(&cur_path);
            if s != last_seq {
                last_seq = s;
                last_change = Instant::now();
            } else {
                // generation of the corpus (no input yet) gets a larger allowance
                let generating = last_seq.as_deref().map(|s| s.contains("generating")).unwrap_or(true);
                let limit = if generating { Duration::from_secs(180) } else { WATCHDOG };
                if last_change.elapsed() > limit {
                    let _ = ch.kill();
                    let _ = ch.wait();
                    break None;
                }
            }
        };
        let rep: Option<Report> = std::fs::read(&out_path).ok().and_then(|b| serde_json::from_slice(&b).ok());
        if let Some(r) = &rep {
            o.reports.push(r.clone());
        }
        let finished = matches!(&status, Some(st) if st.success()) && rep.as_ref().map(|r| r.done).unwrap_or(false);
        if finished {
            break;
        }
        // ---- the child died or hung: which input? -------------------------------------------------
        let cur = read_cur(&cur_path);
        let marker = std::fs::read_to_string(&marker_path).unwrap_or_default();
        let stderr = std::fs::read_to_string(&err_path).unwrap_or_default();
        let Some(cur) = cur else {
            o.inconclusive.push(format!(
                "child of shard {shard} ended ({}) before any input was persisted; stderr tail: {}",
                status.as_ref().map(describe_status).unwrap_or_else(|| "killed by watchdog".into()),
                clip(&stderr.chars().rev().take(300).collect::<String>().chars().rev().collect::<String>(), 300)
            ));
            return o;
        };
        let e = &entries[cur.entry.min(entries.len() - 1)];
        let tag = format!("{shard}-{restarts}");
        match &status {
            Some(st) => {
                // abnormal exit: attribute, then reproduce alone
                let (class, site) = crash_class(&marker, &stderr, &describe_status(st));
                let (alone, am, ae) = run_alone(exe, dir, &tag, e.name, &cur.input, ALONE_LIMIT);
                let reproduced = match &alone {
                    AloneOutcome::Crashed(_) => true,
                    _ => false,
                };
                if reproduced {
                    let (class2, site2) = match &alone {
                        AloneOutcome::Crashed(s) => crash_class(&am, &ae, s),
                        _ => unreachable!(),
                    };
                    let site = site2.or(site);
                    let sig = match &site {
                        Some(s) => format!("C05 decoder abort {} ({}) @ {}", e.name, class2, s),
                        None => format!("C05 decoder abort {} ({})", e.name, class2),
                    };
                    bump(&mut o, &format!("ep\t{}\tabort", e.name));
                    bump(&mut o, &format!("{}{}", if e.diagnostic { "diag|" } else { "viol|" }, sig));
                    if o.viols.iter().filter(|v| v.signature == sig).count() < 2 {
                        let stderr_line = ae.lines().find(|l| l.contains("memory allocation") || l.contains("overflowed") || l.contains("fatal")).unwrap_or("").to_string();
                        o.viols.push(Viol {
                            signature: sig,
                            what: format!(
                                "the process decoding this input dies ({class}; alone: {class2}); stderr: {stderr_line}; input class: {}; input ({} bytes): {}",
                                cur.class,
                                cur.input.len(),
                                clip(&hex::encode(&cur.input), 160)
                            ),
                            replay: replay_json(e, &cur.class, &cur.input),
                            diagnostic: e.diagnostic,
                        });
                    }
                } else {
                    bump(&mut o, "process.child_death_not_reproduced_alone");
                    o.inconclusive.push(format!(
                        "child of shard {shard} died ({class}) on entry {} but the input alone gives {:?}; input class {}",
                        e.name, alone, cur.class
                    ));
                }
            }
            None => {
                // watchdog: 10 s without progress -> alone with 60 s
                let (alone, _am, _ae) = run_alone(exe, dir, &tag, e.name, &cur.input, ALONE_LIMIT);
                match alone {
                    AloneOutcome::StillRunning => {
                        let sig = format!("C05 decoder does not terminate {}", e.name);
                        bump(&mut o, &format!("ep\t{}\ttimeout", e.name));
                        bump(&mut o, &format!("{}{}", if e.diagnostic { "diag|" } else { "viol|" }, sig));
                        if o.viols.iter().filter(|v| v.signature == sig).count() < 2 {
                            o.viols.push(Viol {
                                signature: sig,
                                what: format!("does not finish within 60 s alone on {} bytes; input class: {}; input: {}", cur.input.len(), cur.class, clip(&hex::encode(&cur.input), 160)),
                                replay: replay_json(e, &cur.class, &cur.input),
                                diagnostic: e.diagnostic,
                            });
                        }
                    }
                    AloneOutcome::Finished(_, secs) if secs < WATCHDOG.as_secs_f64() => bump(&mut o, "process.watchdog_not_reproduced_alone"),
                    AloneOutcome::Finished(_, secs) => {
                        o.inconclusive.push(format!("entry {} needs {secs:.1} s on an input of {} bytes ({}): slower than the 10 s watchdog but terminates", e.name, cur.input.len(), cur.class))
                    }
                    AloneOutcome::Crashed(s) => o.inconclusive.push(format!("watchdog fired on entry {} and the input alone crashes ({s}); input class {}", e.name, cur.class)),
                }
            }
        }
        skip.push((cur.round, cur.idx));
        if let Some(r) = &rep {
            start = r.pos;
        }
        restarts += 1;
        bump(&mut o, "process.restarts_after_offending_input");
        if restarts > 400 {
            o.inconclusive.push(format!("shard {shard}: more than 400 restarts"));
            break;
        }
    }
    o.hashes = std::fs::read(&hash_path).unwrap_or_default();
    o
}

pub const RULE: &str = "entry points = every public decoder of the wire types (see coverage.entry_points: from_bytes of the STM types, ProtocolKey<T>::{from_bytes_hex, from_json_hex, TryFrom<&str>, Deserialize} of every alias, bincode Merkle proofs, DMQ frame, JSON messages followed by their conversion into entities). Inputs: (1) honest encodings of honest values (one STM world per corpus + the repository's fake keys / dummies) in every form (CBOR-v1, legacy layout re-encoded by the harness, raw, bincode, bytes-hex, json-hex, as a field of the JSON messages, nested inside the CBOR / legacy container framings) - these must decode to a value whose canonical JSON equals the original's; (2) structure-aware mutants: every big-endian length/count field of every legacy layout set to {0,1,len-1,len+1,2^16,2^31,2^32,2^38,2^56,2^62,2^63-1,2^63,2^63+1,2^64-16,2^64-9,2^64-8,2^64-1}, truncations, first-byte (CBOR-v1 / legacy) switches, trailing bytes, CBOR length heads rewritten (huge / off by one / indefinite), CBOR and bincode nesting bombs, bincode varints inflated, JSON node replacement (wrong types, 1e400, 2^64, NaN, deep nesting, duplicate / missing / unknown keys), hex anomalies (odd length, non-hex, non-ASCII, empty); (3) random bytes of length 0-4096 and random byte edits / splices of honest encodings. Each decode runs in a child process on an 8 MiB-stack thread under the panic hook and the counting allocator; outcome per input: value | error | panic | abort (child exit status, input persisted before the call, reproduced alone) | allocation out of proportion (single request > 16 MiB and > 256 x input) | no termination (10 s watchdog, then 60 s alone). distinct non-trivial = distinct (entry point, input) where the input is honest / structure-aware, or random but decoded to a value.";

pub const ASSUMPTIONS: [&str; 5] = [
    "dev profile: overflow checks and debug assertions on (arithmetic overflow counts as panic, as the statement lists it)",
    "requests above 1 GiB are refused by the harness allocator (null), which std turns into an abort: treated as the abort the real allocator would produce on a machine without that much memory",
    "decoding thread stack = 8 MiB (Linux main-thread default); a stack overflow within it is an abort",
    "legacy layouts are re-encoded by the harness from what the legacy decoders read (the library has no legacy encoder)",
    "entry points behind mithril_stm::verif_export (crate-private Merkle types) and the post-decode verify() calls are diagnostic only",
];

pub fn run(args: &Args) -> ! {
    let mut mon = Monitor::new(args);
    let entries = entry::entries();
    let exe = std::env::current_exe().expect("current exe");
    let dir = std::env::temp_dir().join(format!("mon-wire-c05-{}", std::process::id()));
    let _ = std::fs::remove_dir_all(&dir);
    std::fs::create_dir_all(&dir).expect("work dir");
    let n_shards: u64 = args.tier.pick(16, 64);
    let threads = vcore::default_threads().min(n_shards as usize);
    let next = std::sync::atomic::AtomicU64::new(0);
    let results: std::sync::Mutex<BTreeMap<u64, ShardOutcome>> = std::sync::Mutex::new(BTreeMap::new());
    std::thread::scope(|s| {
        for _ in 0..threads {
            s.spawn(|| loop {
                let i = next.fetch_add(1, Ordering::SeqCst);
                if i >= n_shards {
                    break;
                }
                let o = shard_proc(&exe, &dir, &entries, i, n_shards, args.seed, args.tier);
                results.lock().unwrap().insert(i, o);
            });
        }
    });
    // ---- merge (shard order) --------------------------------------------------------------------
    let mut per_entry: BTreeMap<String, BTreeMap<String, u64>> = BTreeMap::new();
    for e in &entries {
        let m = per_entry.entry(e.name.to_string()).or_default();
        for k in ["value", "error", "panic", "abort", "bigalloc", "timeout"] {
            m.insert(k.to_string(), 0);
        }
    }
    let mut add_counter = |mon: &mut Monitor, k: &str, n: u64| {
        if let Some(rest) = k.strip_prefix("ep\t") {
            if let Some((name, oc)) = rest.split_once('\t') {
                *per_entry.entry(name.to_string()).or_default().entry(oc.to_string()).or_insert(0) += n;
                return;
            }
        }
        mon.count_n(k, n);
    };
    let mut all_viols: Vec<Viol> = vec![];
    for (_, o) in results.into_inner().unwrap() {
        for r in &o.reports {
            mon.evals(r.evaluations);
            for (k, n) in &r.counters {
                add_counter(&mut mon, k, *n);
            }
            for s in &r.samples {
                mon.sample(s.clone());
            }
            for n in &r.notes {
                mon.inconclusive(n);
            }
        }
        for (k, n) in &o.counters {
            add_counter(&mut mon, k, *n);
        }
        for v in o.reports.iter().flat_map(|r| r.violations.iter()).chain(o.viols.iter()) {
            if !v.diagnostic {
                all_viols.push(v.clone());
            }
        }
        for w in &o.inconclusive {
            mon.inconclusive(w);
        }
        for h in o.hashes.chunks_exact(8) {
            mon.nontrivial(h);
        }
    }
    // One witness per signature. vcore keeps 30 replay files at most, so order them: every root
    // cause (source location / failure class) first through its most direct entry point, small
    // inputs first; the per-signature totals are in the counters ("viol|<signature>").
    let root_cause = |sig: &str| -> String {
        match sig.split_once(" @ ") {
            Some((_, loc)) => loc.to_string(),
            None => sig.rsplit_once(" (").map(|(_, c)| format!("({c}")).unwrap_or_else(|| sig.to_string()),
        }
    };
    let directness = |sig: &str| -> u8 {
        if sig.contains(" stm::") {
            0
        } else if sig.contains("::from_bytes ") || sig.contains("::try_from_bytes ") {
            1
        } else if sig.contains("deserialize+") {
            3
        } else {
            2
        }
    };
    all_viols.sort_by(|a, b| (directness(&a.signature), a.replay["input_len"].as_u64()).cmp(&(directness(&b.signature), b.replay["input_len"].as_u64())));
    let mut emitted: std::collections::BTreeSet<String> = Default::default();
    let mut causes: std::collections::BTreeSet<String> = Default::default();
    for pass in 0..2 {
        for v in &all_viols {
            if emitted.contains(&v.signature) {
                continue;
            }
            let rc = root_cause(&v.signature);
            if pass == 0 && causes.contains(&rc) {
                continue;
            }
            causes.insert(rc);
            emitted.insert(v.signature.clone());
            mon.violation(&v.signature, &v.what, v.replay.clone());
        }
    }
    mon.extra.insert("distinct_violation_signatures".into(), json!(emitted.len()));
    mon.extra.insert("distinct_root_causes".into(), json!(causes.iter().collect::<Vec<_>>()));
    let covered = per_entry.values().filter(|m| m.values().sum::<u64>() > 0).count();
    mon.extra.insert("entry_points".into(), json!(per_entry));
    mon.extra.insert("entry_points_total".into(), json!(entries.len()));
    mon.extra.insert("entry_points_exercised".into(), json!(covered));
    mon.extra.insert("diagnostic_entry_points".into(), json!(entries.iter().filter(|e| e.diagnostic).map(|e| e.name).collect::<Vec<_>>()));
    if covered < entries.len() {
        let missing: Vec<&str> = entries.iter().filter(|e| per_entry.get(e.name).map(|m| m.values().sum::<u64>() == 0).unwrap_or(true)).map(|e| e.name).collect();
        mon.inconclusive(&format!("entry points never exercised: {missing:?}"));
    }
    let _ = std::fs::remove_dir_all(&dir);
    mon.finish(RULE, &ASSUMPTIONS, 1000)
}

/// `--replay FILE`: run the stored input alone in a child and report the classification
pub fn replay(args: &Args, file: &Path) -> ! {
    let doc: Value = serde_json::from_slice(&std::fs::read(file).expect("replay file")).expect("replay JSON");
    let r = &doc["replay"];
    let entry = r["entry"].as_str().unwrap_or("").to_string();
    let input = hex::decode(r["input_hex"].as_str().unwrap_or("")).unwrap_or_default();
    let exe = std::env::current_exe().expect("current exe");
    let dir = std::env::temp_dir().join(format!("mon-wire-c05-replay-{}", std::process::id()));
    std::fs::create_dir_all(&dir).expect("work dir");
    let (alone, marker, stderr) = run_alone(&exe, &dir, "replay", &entry, &input, ALONE_LIMIT);
    let _ = std::fs::remove_dir_all(&dir);
    println!("[C05 replay] entry={entry} input={} bytes", input.len());
    let _ = args;
    match alone {
        AloneOutcome::Finished(v, secs) => {
            println!("[C05 replay] finished in {secs:.2}s: {v}");
            let oc = v["outcome"].as_str().unwrap_or("");
            let peak = v["peak_single_alloc"].as_u64().unwrap_or(0) as usize;
            if oc == "panic" || (peak > BIG_ALLOC && peak > 256 * input.len().max(1)) {
                println!("VIOLATION property=C05 replay={}", file.display());
                std::process::exit(1);
            }
            println!("HELD property=C05 on the replayed input ({oc})");
            std::process::exit(0);
        }
        AloneOutcome::Crashed(s) => {
            let (class, site) = crash_class(&marker, &stderr, &s);
            println!("[C05 replay] the process died: {class} {}", site.unwrap_or_default());
            println!("VIOLATION property=C05 replay={}", file.display());
            std::process::exit(1);
        }
        AloneOutcome::StillRunning => {
            println!("[C05 replay] still running after 60 s");
            println!("VIOLATION property=C05 replay={}", file.display());
            std::process::exit(1);
        }
    }
}
