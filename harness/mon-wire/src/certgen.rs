//! Certificates for C04: real chains from the repository's chain builder (built once, single
//! threaded - the fixture builder writes key files into a shared temp directory), re-labelled per
//! case with randomised metadata / signed entity types, plus fully synthetic certificates.
use chrono::{DateTime, Utc};
use mithril_common::crypto_helper::{
    GenesisEd25519Signature, GenesisVerifier, ProtocolAggregateVerificationKeyForConcatenation,
    ProtocolMultiSignature,
};
use mithril_common::entities::{
    BlockNumber, BlockNumberOffset, CardanoDbBeacon, Certificate, CertificateMetadata,
    CertificateSignature, Epoch, ProtocolMessage, ProtocolMessagePartKey, ProtocolParameters,
    SignedEntityType, StakeDistributionParty,
};
use mithril_common::test::builder::{CertificateChainBuilder, CertificateChainingMethod};
use mithril_common::test::double::fake_keys;
use rand_chacha::ChaCha20Rng;
use rand_core::RngCore;
use std::collections::HashMap;
use vcore::rnd;

use crate::util::{arbitrary_string, hex_string, interesting_u64};

pub struct BaseChain {
    pub label: &'static str,
    /// genesis first
    pub certs: Vec<Certificate>,
    pub verifier: GenesisVerifier,
}

pub struct Pools {
    pub avks: Vec<ProtocolAggregateVerificationKeyForConcatenation>,
    pub msigs: Vec<ProtocolMultiSignature>,
    pub gsigs: Vec<GenesisEd25519Signature>,
}

pub fn build_base_chains() -> Vec<BaseChain> {
    let mut out = vec![];
    {
        let f = CertificateChainBuilder::new().with_total_certificates(5).with_certificates_per_epoch(1).build();
        let mut certs = f.certificates_chained.clone();
        certs.reverse();
        out.push(BaseChain { label: "5 certificates, 1 per epoch, master chaining", certs, verifier: f.genesis_verifier.clone() });
    }
    {
        let f = CertificateChainBuilder::new()
            .with_total_certificates(7)
            .with_certificates_per_epoch(2)
            .with_protocol_parameters(mithril_stm::Parameters { m: 60, k: 3, phi_f: 0.8 })
            .with_certificate_chaining_method(CertificateChainingMethod::Sequential)
            .build();
        let mut certs = f.certificates_chained.clone();
        certs.reverse();
        out.push(BaseChain { label: "7 certificates, 2 per epoch, sequential chaining", certs, verifier: f.genesis_verifier.clone() });
    }
    out
}

pub fn build_pools(chains: &[BaseChain]) -> Pools {
    let mut avks: Vec<ProtocolAggregateVerificationKeyForConcatenation> = vec![];
    let mut msigs: Vec<ProtocolMultiSignature> = vec![];
    let mut gsigs: Vec<GenesisEd25519Signature> = vec![];
    let mut seen = std::collections::HashSet::new();
    for ch in chains {
        for c in &ch.certs {
            if seen.insert(c.aggregate_verification_key.to_json_hex().unwrap()) {
                avks.push(c.aggregate_verification_key.clone());
            }
            match &c.signature {
                CertificateSignature::GenesisSignature(s) => gsigs.push(*s),
                CertificateSignature::MultiSignature(_, m) => msigs.push(m.clone()),
            }
        }
    }
    for k in fake_keys::aggregate_verification_key_for_concatenation() {
        if let Ok(a) = ProtocolAggregateVerificationKeyForConcatenation::try_from(k) {
            if seen.insert(a.to_json_hex().unwrap()) {
                avks.push(a);
            }
        }
    }
    for k in fake_keys::multi_signature() {
        if let Ok(m) = ProtocolMultiSignature::try_from(k) {
            msigs.push(m);
        }
    }
    for k in fake_keys::genesis_signature() {
        if let Ok(g) = GenesisEd25519Signature::try_from(k) {
            gsigs.push(g);
        }
    }
    Pools { avks, msigs, gsigs }
}

/// a timestamp anywhere in the i64-nanosecond range, with sub-second parts
pub fn random_time(rng: &mut ChaCha20Rng) -> DateTime<Utc> {
    let n: i64 = match rnd::below(rng, 10) {
        0 => *rnd::pick(rng, &[i64::MIN, i64::MIN + 1, -1, 0, 1, 999_999_999, 1_000_000_000, i64::MAX - 1, i64::MAX]),
        1 => rng.next_u64() as i64,
        2 => -((rng.next_u64() >> rnd::below(rng, 63)) as i64).abs(),
        3 => (rng.next_u64() >> (1 + rnd::below(rng, 62))) as i64,
        // whole seconds
        4 => 1_700_000_000i64.wrapping_add(rnd::below(rng, 100_000_000) as i64) * 1_000_000_000,
        // milliseconds / microseconds only
        5 => (1_700_000_000_000i64 + rnd::below(rng, 1_000_000_000) as i64) * 1_000_000,
        6 => (1_700_000_000_000_000i64 + rnd::below(rng, 1_000_000_000_000) as i64) * 1_000,
        _ => 1_600_000_000_000_000_000i64 + rnd::below(rng, 400_000_000_000_000_000) as i64,
    };
    DateTime::<Utc>::from_timestamp_nanos(n)
}

pub const U8F24_ONE: f64 = 16_777_216.0;

/// phi in [0,1]: exact U8F24 grid points, rounding-tie neighbours, arbitrary doubles
pub fn random_phi(rng: &mut ChaCha20Rng) -> f64 {
    let k = rnd::below(rng, 1 << 24) as f64;
    let v = match rnd::below(rng, 9) {
        0 => *rnd::pick(rng, &[0.0, 1.0, 0.2, 0.65, 0.5, 0.05, 0.95, 0.123, 5e-324, 1e-300, 1.0 - f64::EPSILON / 2.0]),
        1 => k / U8F24_ONE,
        2 => (k + 1.0) / U8F24_ONE,
        // rounding ties and their f64 neighbours
        3 => (k + 0.5) / U8F24_ONE,
        4 => f64::from_bits(((k + 0.5) / U8F24_ONE).to_bits() + 1),
        5 => f64::from_bits(((k + 0.5) / U8F24_ONE).to_bits().saturating_sub(1)),
        // short decimals
        6 => rnd::below(rng, 10_001) as f64 / 10_000.0,
        _ => rnd::f64_unit(rng),
    };
    if (0.0..=1.0).contains(&v) {
        v
    } else {
        0.5
    }
}

pub fn random_party(rng: &mut ChaCha20Rng) -> StakeDistributionParty {
    let party_id = match rnd::below(rng, 4) {
        0 => arbitrary_string(rng, 24),
        1 => format!("{}", rnd::below(rng, 100)),
        _ => format!("pool1{}", {
            const B: &[u8] = b"qpzry9x8gf2tvdw0s3jn54khce6mua7l";
            (0..51).map(|_| B[rnd::usize_below(rng, 32)] as char).collect::<String>()
        }),
    };
    StakeDistributionParty { party_id, stake: interesting_u64(rng) }
}

pub fn random_signers(rng: &mut ChaCha20Rng) -> Vec<StakeDistributionParty> {
    let n = match rnd::below(rng, 6) {
        0 => 0,
        1 => 1,
        2 => 20,
        _ => rnd::usize_below(rng, 21),
    };
    (0..n).map(|_| random_party(rng)).collect()
}

pub fn random_metadata(rng: &mut ChaCha20Rng, params: Option<ProtocolParameters>) -> CertificateMetadata {
    let network = match rnd::below(rng, 3) {
        0 => rnd::pick(rng, &["mainnet", "preprod", "preview", "devnet", "testnet", ""]).to_string(),
        _ => arbitrary_string(rng, 16),
    };
    let protocol_version = match rnd::below(rng, 3) {
        0 => rnd::pick(rng, &["0.1.0", "1.0.0", "0.2.24", ""]).to_string(),
        _ => arbitrary_string(rng, 12),
    };
    let protocol_parameters = params.unwrap_or_else(|| ProtocolParameters {
        k: interesting_u64(rng),
        m: interesting_u64(rng),
        phi_f: random_phi(rng),
    });
    CertificateMetadata {
        network,
        protocol_version,
        protocol_parameters,
        initiated_at: random_time(rng),
        sealed_at: random_time(rng),
        signers: random_signers(rng),
    }
}

pub const N_SET_VARIANTS: u64 = 5;

/// every SignedEntityType variant; `variant` picks one (mod 5). The exhaustive match below breaks
/// the build when a variant is added upstream.
pub fn make_set(variant: u64, a: u64, b: u64, c: u64) -> SignedEntityType {
    let v = match variant % N_SET_VARIANTS {
        0 => SignedEntityType::MithrilStakeDistribution(Epoch(a)),
        1 => SignedEntityType::CardanoStakeDistribution(Epoch(a)),
        2 => SignedEntityType::CardanoDatabase(CardanoDbBeacon { epoch: Epoch(a), immutable_file_number: b }),
        3 => SignedEntityType::CardanoTransactions(Epoch(a), BlockNumber(b)),
        _ => SignedEntityType::CardanoBlocksTransactions(Epoch(a), BlockNumber(b), BlockNumberOffset(c)),
    };
    // exhaustiveness guard
    match &v {
        SignedEntityType::MithrilStakeDistribution(_)
        | SignedEntityType::CardanoStakeDistribution(_)
        | SignedEntityType::CardanoDatabase(_)
        | SignedEntityType::CardanoTransactions(_, _)
        | SignedEntityType::CardanoBlocksTransactions(_, _, _) => {}
    }
    v
}

pub fn random_set(rng: &mut ChaCha20Rng) -> SignedEntityType {
    let v = rnd::below(rng, N_SET_VARIANTS);
    make_set(v, interesting_u64(rng), interesting_u64(rng), interesting_u64(rng))
}

/// All protocol message part keys. The match is exhaustive on purpose: a new key upstream breaks
/// the harness build (the monitor must learn its value grammar).
pub fn all_part_keys() -> Vec<ProtocolMessagePartKey> {
    use ProtocolMessagePartKey::*;
    let all = vec![
        SnapshotDigest,
        CardanoTransactionsMerkleRoot,
        CardanoBlocksTransactionsMerkleRoot,
        NextAggregateVerificationKey,
        NextProtocolParameters,
        CurrentEpoch,
        LatestBlockNumber,
        CardanoBlocksTransactionsBlockNumberOffset,
        CardanoStakeDistributionEpoch,
        CardanoStakeDistributionMerkleRoot,
        CardanoDatabaseMerkleRoot,
        NextSnarkAggregateVerificationKey,
    ];
    for k in &all {
        let _ = part_grammar(*k);
    }
    all
}

#[derive(Clone, Copy, PartialEq, Eq, Debug)]
pub enum Grammar {
    HexDigest,
    Decimal,
    HexKey,
}

/// the honest value grammar of each part (statement: hex digests, decimal numbers, hex keys)
pub fn part_grammar(k: ProtocolMessagePartKey) -> Grammar {
    use ProtocolMessagePartKey::*;
    match k {
        SnapshotDigest
        | CardanoTransactionsMerkleRoot
        | CardanoBlocksTransactionsMerkleRoot
        | CardanoStakeDistributionMerkleRoot
        | CardanoDatabaseMerkleRoot
        | NextProtocolParameters => Grammar::HexDigest,
        CurrentEpoch | LatestBlockNumber | CardanoBlocksTransactionsBlockNumberOffset | CardanoStakeDistributionEpoch => {
            Grammar::Decimal
        }
        NextAggregateVerificationKey | NextSnarkAggregateVerificationKey => Grammar::HexKey,
    }
}

pub fn in_grammar(g: Grammar, v: &str) -> bool {
    let hex = |s: &str| !s.is_empty() && s.len() % 2 == 0 && s.bytes().all(|b| matches!(b, b'0'..=b'9' | b'a'..=b'f'));
    match g {
        Grammar::HexDigest | Grammar::HexKey => hex(v),
        Grammar::Decimal => v.parse::<u64>().map(|n| n.to_string() == v).unwrap_or(false),
    }
}

pub fn honest_part_value(rng: &mut ChaCha20Rng, k: ProtocolMessagePartKey, pools: Option<&Pools>) -> String {
    match part_grammar(k) {
        Grammar::HexDigest => {
            let n = *rnd::pick(rng, &[64usize, 64, 64, 56, 40, 8, 2, 128]);
            hex_string(rng, n)
        }
        Grammar::Decimal => interesting_u64(rng).to_string(),
        Grammar::HexKey => match pools {
            Some(p) if rnd::chance(rng, 1, 2) && k == ProtocolMessagePartKey::NextAggregateVerificationKey => {
                rnd::pick(rng, &p.avks).to_json_hex().unwrap()
            }
            _ => {
                let n = 2 * (1 + rnd::usize_below(rng, 120));
                hex_string(rng, n)
            }
        },
    }
}

pub fn random_protocol_message(rng: &mut ChaCha20Rng, pools: Option<&Pools>) -> ProtocolMessage {
    let mut pm = ProtocolMessage::new();
    let keys = all_part_keys();
    let density = 1 + rnd::below(rng, 4);
    for k in keys {
        if rnd::below(rng, 4) < density {
            pm.set_message_part(k, honest_part_value(rng, k, pools));
        }
    }
    pm
}

pub fn random_genesis_signature(rng: &mut ChaCha20Rng, pools: &Pools) -> GenesisEd25519Signature {
    if !pools.gsigs.is_empty() && rnd::chance(rng, 1, 2) {
        return *rnd::pick(rng, &pools.gsigs);
    }
    let mut b = [0u8; 64];
    rng.fill_bytes(&mut b);
    // keep the scalar half canonical-looking so that stricter parsers would also take it
    b[63] &= 0x0f;
    GenesisEd25519Signature::new(ed25519_dalek::Signature::from_bytes(&b))
}

/// fully synthetic certificate (hash computed from the content)
pub fn synthetic_certificate(rng: &mut ChaCha20Rng, pools: &Pools) -> Certificate {
    let protocol_message = random_protocol_message(rng, Some(pools));
    let signed_message = if rnd::chance(rng, 7, 8) { protocol_message.compute_hash() } else { hex_string(rng, 64) };
    let signature = if rnd::chance(rng, 1, 4) {
        CertificateSignature::GenesisSignature(random_genesis_signature(rng, pools))
    } else {
        CertificateSignature::MultiSignature(random_set(rng), rnd::pick(rng, &pools.msigs).clone())
    };
    let mut c = Certificate {
        hash: String::new(),
        previous_hash: match rnd::below(rng, 4) {
            0 => String::new(),
            1 => arbitrary_string(rng, 20),
            _ => hex_string(rng, 64),
        },
        epoch: Epoch(interesting_u64(rng)),
        metadata: random_metadata(rng, None),
        protocol_message,
        signed_message,
        aggregate_verification_key: rnd::pick(rng, &pools.avks).clone(),
        ancillary_prover_data: None,
        ancillary_verifier_data: None,
        signature,
    };
    c.hash = c.try_compute_hash().expect("hash of a synthetic certificate");
    c
}

/// Re-label a real chain: random metadata (protocol parameters kept: the signatures depend on
/// them) and random signed entity types, hashes and links recomputed genesis-first. The result is
/// still a chain the verifier accepts.
pub fn randomise_chain(base: &BaseChain, rng: &mut ChaCha20Rng) -> Vec<Certificate> {
    let mut map: HashMap<String, String> = HashMap::new();
    let mut out = vec![];
    for c in &base.certs {
        let mut c = c.clone();
        let params = c.metadata.protocol_parameters.clone();
        c.metadata = random_metadata(rng, Some(params));
        if let CertificateSignature::MultiSignature(_, sig) = &c.signature {
            c.signature = CertificateSignature::MultiSignature(random_set(rng), sig.clone());
        }
        if let Some(n) = map.get(&c.previous_hash) {
            c.previous_hash = n.clone();
        }
        let old = c.hash.clone();
        c.hash = c.try_compute_hash().expect("hash of a chain certificate");
        map.insert(old, c.hash.clone());
        out.push(c);
    }
    out
}
