//! C05 workload: honest encodings ("bases") of honest values, the transports that carry an encoding
//! to an entry point (direct bytes, hex text, a field of a JSON message, wrapped in the CBOR
//! envelopes of the containers), and the per-round item lists.
use mithril_common::crypto_helper::{
    GenesisEd25519Signature, GenesisEd25519VerificationKey, MKProof, MKTree, MKTreeNode, MKTreeStoreInMemory,
    ProtocolMkProof, ProtocolOpCert, ProtocolSignerVerificationKeySignatureForConcatenation,
    TryToBytes,
};
use mithril_common::entities::{BlockNumber, CardanoDbBeacon, Epoch, SignedEntityType};
use mithril_common::messages::{
    CardanoBlockMessagePart, CardanoBlocksProofsMessage, CardanoTransactionMessagePart,
    CardanoTransactionsProofsMessage, CardanoTransactionsProofsV2Message, CardanoTransactionsSetProofMessagePart,
    CertificateMessage, MithrilStakeDistributionMessage, MkSetProofMessagePart, RegisterSignatureMessageDmq,
    RegisterSignatureMessageHttp, RegisterSignerMessage,
};
use mithril_common::test::double::{fake_keys, Dummy};
use rand_chacha::ChaCha20Rng;
use rand_core::{RngCore, SeedableRng};
use serde::Serialize;
use serde_json::Value;
use std::sync::Arc;
use vcore::{rnd, Tier};

use crate::entry::{index_of, Entry, Form};
use crate::honest::{self, cbor_v1, legacy, AggEnv, ConcatEnv, Enc, RegEntryEnv, SigRegEnv, StmWorld};
use crate::mutate::{self, Mutant};

#[derive(Clone)]
pub enum Kind {
    Legacy(Vec<(usize, &'static str)>),
    Cbor,
    Raw,
    Bincode,
    JsonText,
    JsonDoc,
    /// custom frame (DMQ): u16 / u32 big-endian length fields at the given offsets
    Frame(Vec<(usize, usize)>),
}

type WrapFn = Arc<dyn Fn(&[u8]) -> Vec<u8> + Send + Sync>;

#[derive(Clone)]
pub enum Carrier {
    Direct,
    Hex,
    /// hex text placed in a field of a JSON document
    JsonField(Arc<Value>, Vec<String>),
}

#[derive(Clone)]
pub struct Transport {
    pub entry: usize,
    pub carrier: Carrier,
    /// envelope wrappers applied innermost first
    pub wraps: Vec<(&'static str, WrapFn)>,
    /// the decoded value must have the base's canonical form (honest round trip)
    pub check: bool,
}

impl Transport {
    pub fn label(&self) -> String {
        let mut s = String::new();
        for (n, _) in &self.wraps {
            s.push_str(n);
            s.push_str(" > ");
        }
        s.push_str(match &self.carrier {
            Carrier::Direct => "bytes",
            Carrier::Hex => "hex",
            Carrier::JsonField(_, _) => "hex in JSON field",
        });
        s
    }
    pub fn carry(&self, bytes: &[u8]) -> Vec<u8> {
        let mut b = bytes.to_vec();
        for (_, w) in &self.wraps {
            b = w(&b);
        }
        match &self.carrier {
            Carrier::Direct => b,
            Carrier::Hex => hex::encode(&b).into_bytes(),
            Carrier::JsonField(doc, path) => {
                // the field holds text: bytes that are valid UTF-8 text already (a mutated hex string)
                // are placed verbatim by `carry_text`; here the field gets hex(bytes)
                let mut d = (**doc).clone();
                set_path(&mut d, path, Value::String(hex::encode(&b)));
                serde_json::to_vec(&d).unwrap()
            }
        }
    }
    /// text given directly (mutants of the hex text itself)
    pub fn carry_text(&self, text: &[u8]) -> Option<Vec<u8>> {
        match &self.carrier {
            Carrier::Direct => None,
            Carrier::Hex => Some(text.to_vec()),
            Carrier::JsonField(doc, path) => {
                let s = std::str::from_utf8(text).ok()?;
                let mut d = (**doc).clone();
                set_path(&mut d, path, Value::String(s.to_string()));
                Some(serde_json::to_vec(&d).unwrap())
            }
        }
    }
}

fn set_path(v: &mut Value, path: &[String], new: Value) {
    let mut cur = v;
    for seg in path {
        cur = if let Ok(i) = seg.parse::<usize>() { &mut cur[i] } else { &mut cur[seg.as_str()] };
    }
    *cur = new;
}

#[derive(Clone)]
pub struct Base {
    pub label: String,
    pub bytes: Vec<u8>,
    pub kind: Kind,
    pub canon: Option<Arc<String>>,
    pub transports: Vec<Transport>,
}

#[derive(Clone)]
pub struct Item {
    pub entry: usize,
    pub input: Vec<u8>,
    /// "<base> | <mutator class> | <transport>"
    pub class: String,
    pub expect: Option<Arc<String>>,
    pub honest: bool,
    pub structured: bool,
}

pub struct Corpus {
    pub bases: Vec<Base>,
}

fn canon<T: Serialize>(v: &T) -> Arc<String> {
    Arc::new(serde_json::to_string(v).expect("canonical JSON of an honest value"))
}

fn json_hex_to_text(h: &str) -> String {
    String::from_utf8(hex::decode(h).expect("fake key is hex")).expect("fake key is JSON text")
}

struct B<'a> {
    entries: &'a [Entry],
    out: Vec<Base>,
}

impl<'a> B<'a> {
    fn e(&self, name: &str) -> usize {
        index_of(self.entries, name).unwrap_or_else(|| panic!("unknown entry point {name}"))
    }
    fn t(&self, name: &str, carrier: Carrier, check: bool) -> Transport {
        let entry = self.e(name);
        match (&carrier, self.entries[entry].form) {
            (Carrier::Direct, Form::Bytes) | (Carrier::Hex, Form::HexStr) | (Carrier::JsonField(_, _), Form::Json) => {}
            (Carrier::Direct, Form::Json) => {}
            _ => panic!("carrier does not fit entry {name}"),
        }
        Transport { entry, carrier, wraps: vec![], check }
    }
    fn direct(&self, name: &str) -> Transport {
        self.t(name, Carrier::Direct, true)
    }
    fn hex(&self, name: &str) -> Transport {
        self.t(name, Carrier::Hex, true)
    }
    fn field(&self, name: &str, doc: &Arc<Value>, path: &[&str]) -> Transport {
        // the message decoders return entities: no canonical comparison through them
        self.t(name, Carrier::JsonField(doc.clone(), path.iter().map(|s| s.to_string()).collect()), false)
    }
    /// the three codec doors of a ProtocolKey alias + from_<which>_hex
    fn key_doors(&self, label: &str, which: &str) -> Vec<Transport> {
        vec![
            self.hex(&format!("{label}::from_{which}_hex")),
            self.hex(&format!("{label}::try_from(&str)")),
            self.hex(&format!("{label}::deserialize(json string)")),
        ]
    }
    fn push(&mut self, label: &str, bytes: Vec<u8>, kind: Kind, canon: Option<Arc<String>>, transports: Vec<Transport>) {
        self.out.push(Base { label: label.to_string(), bytes, kind, canon, transports });
    }
}

fn wrapped(mut t: Transport, wraps: Vec<(&'static str, WrapFn)>) -> Transport {
    t.wraps = wraps;
    t.check = false;
    t
}

/// message templates whose key fields carry mutated encodings
pub struct Docs {
    pub cert_std: Arc<Value>,
    pub cert_genesis: Arc<Value>,
    pub reg_signer: Arc<Value>,
    pub reg_signature: Arc<Value>,
    pub msd: Arc<Value>,
    pub tx_proofs_v1: Arc<Value>,
    pub tx_proofs_v2: Arc<Value>,
    pub blocks_proofs: Arc<Value>,
}

pub fn docs() -> Docs {
    let cert = CertificateMessage::dummy();
    let mut g = cert.clone();
    g.multi_signature = String::new();
    g.genesis_signature = fake_keys::genesis_signature()[0].to_string();
    let v1 = CardanoTransactionsProofsMessage::new(
        "cert-hash-123",
        vec![CardanoTransactionsSetProofMessagePart::dummy()],
        vec!["tx-x".to_string()],
        BlockNumber(100),
    );
    let a = |v: Value| Arc::new(v);
    Docs {
        cert_std: a(serde_json::to_value(&cert).unwrap()),
        cert_genesis: a(serde_json::to_value(&g).unwrap()),
        reg_signer: a(serde_json::to_value(RegisterSignerMessage::dummy()).unwrap()),
        reg_signature: a(serde_json::to_value(RegisterSignatureMessageHttp::dummy()).unwrap()),
        msd: a(serde_json::to_value(MithrilStakeDistributionMessage::dummy()).unwrap()),
        tx_proofs_v1: a(serde_json::to_value(&v1).unwrap()),
        tx_proofs_v2: a(serde_json::to_value(CardanoTransactionsProofsV2Message::dummy()).unwrap()),
        blocks_proofs: a(serde_json::to_value(CardanoBlocksProofsMessage::dummy()).unwrap()),
    }
}

const E_CERT: &str = "common::CertificateMessage::deserialize+Certificate::try_from";
const E_TXV1: &str = "common::CardanoTransactionsProofsMessage::deserialize+CardanoTransactionsSetProof::try_from";
const E_TXV2: &str = "common::CardanoTransactionsProofsV2Message::deserialize+MkSetProof::try_from";
const E_BLK: &str = "common::CardanoBlocksProofsMessage::deserialize+MkSetProof::try_from";
const E_RSIG: &str = "common::RegisterSignatureMessageHttp::deserialize+adapter";
const E_RSGN: &str = "common::RegisterSignerMessage::deserialize+adapter";
const E_MSD: &str = "common::MithrilStakeDistributionMessage::deserialize+SignerWithStake::try_into";

/// bases of one STM world
fn world_bases(b: &mut B, w: &StmWorld, d: &Docs, tag: &str) {
    let k_multi = "common::ProtocolMultiSignature";
    let k_single = "common::ProtocolSingleSignature";
    let k_avk = "common::ProtocolAggregateVerificationKeyForConcatenation";
    let k_vk = "common::ProtocolSignerVerificationKeyForConcatenation";

    // ---- aggregate signature ---------------------------------------------------------------
    let agg_canon = canon(&w.agg);
    let agg_bytes_doors = |b: &B| -> Vec<Transport> {
        let mut t = vec![b.direct("stm::AggregateSignature::from_bytes"), b.direct("common::ProtocolMultiSignature::from_bytes")];
        t.extend(b.key_doors(k_multi, "bytes"));
        t.push(b.field(E_CERT, &d.cert_std, &["multi_signature"]));
        t
    };
    let t = agg_bytes_doors(b);
    b.push(&format!("{tag}AggregateSignature/cbor-v1"), w.agg.to_bytes().unwrap(), Kind::Cbor, Some(agg_canon.clone()), t);
    let la = legacy::aggregate(&w.raw);
    let t = agg_bytes_doors(b);
    b.push(&format!("{tag}AggregateSignature/legacy"), la.bytes.clone(), Kind::Legacy(la.len_fields.clone()), Some(agg_canon.clone()), t);
    let mut t = b.key_doors(k_multi, "json");
    t.push(b.field(E_CERT, &d.cert_std, &["multi_signature"]));
    b.push(&format!("{tag}AggregateSignature/json"), serde_json::to_vec(&w.agg).unwrap(), Kind::JsonText, Some(agg_canon.clone()), t);

    // envelope wrappers
    let wrap_agg: WrapFn = Arc::new(|p: &[u8]| cbor_v1(&AggEnv { signature_type: 0, proof_bytes: p.to_vec() }));
    let wrap_agg_legacy: WrapFn = Arc::new(|p: &[u8]| {
        let mut v = vec![0u8];
        v.extend_from_slice(p);
        v
    });
    let sig_regs = w.sig_reg_bytes.clone();
    let batch = w.batch_path_bytes.clone();
    let wrap_concat_sig0: WrapFn = {
        let (sig_regs, batch) = (sig_regs.clone(), batch.clone());
        Arc::new(move |p: &[u8]| {
            let mut s = sig_regs.clone();
            s[0] = p.to_vec();
            cbor_v1(&ConcatEnv { signature_bytes: s, batch_proof_bytes: batch.clone() })
        })
    };
    let wrap_concat_batch: WrapFn = {
        let sig_regs = sig_regs.clone();
        Arc::new(move |p: &[u8]| cbor_v1(&ConcatEnv { signature_bytes: sig_regs.clone(), batch_proof_bytes: p.to_vec() }))
    };
    let sr0: SigRegEnv = honest::from_cbor_v1(&w.sig_reg_bytes[0]).expect("harness mirror of the sig-reg envelope is out of date");
    let wrap_sigreg_sig: WrapFn = {
        let reg = sr0.registration_entry_bytes.clone();
        Arc::new(move |p: &[u8]| cbor_v1(&SigRegEnv { signature_bytes: p.to_vec(), registration_entry_bytes: reg.clone() }))
    };
    let wrap_sigreg_reg: WrapFn = {
        let sig = sr0.signature_bytes.clone();
        Arc::new(move |p: &[u8]| cbor_v1(&SigRegEnv { signature_bytes: sig.clone(), registration_entry_bytes: p.to_vec() }))
    };
    // legacy framings of the same containers
    let raw0 = w.raw.clone();
    let wrap_legacy_concat_sig0: WrapFn = {
        let raw0 = raw0.clone();
        Arc::new(move |p: &[u8]| {
            let mut e = Enc::new();
            e.be(raw0.sigs.len() as u64);
            for (i, s) in raw0.sigs.iter().enumerate() {
                if i == 0 {
                    e.be(p.len() as u64).raw(p);
                } else {
                    let sp = legacy::sig_with_party(s);
                    e.be(sp.bytes.len() as u64).raw(&sp.bytes);
                }
            }
            e.raw(&legacy::batch_path(&raw0.path_values, &raw0.path_indices).bytes);
            e.bytes
        })
    };

    // a whole concatenation proof (legacy / cbor) inside both aggregate framings
    let lc = legacy::concatenation_proof(&w.raw);
    let into_agg = |b: &B, extra: Vec<(&'static str, WrapFn)>| -> Vec<Transport> {
        let mut v = vec![];
        for (outer_name, outer) in [("CBOR aggregate envelope", wrap_agg.clone()), ("legacy aggregate prefix", wrap_agg_legacy.clone())] {
            let mut wraps = extra.clone();
            wraps.push((outer_name, outer));
            v.push(wrapped(b.direct("stm::AggregateSignature::from_bytes"), wraps.clone()));
            v.push(wrapped(b.hex(&format!("{k_multi}::try_from(&str)")), wraps.clone()));
            v.push(wrapped(b.field(E_CERT, &d.cert_std, &["multi_signature"]), wraps));
        }
        v
    };
    let t = into_agg(b, vec![]);
    b.push(&format!("{tag}ConcatenationProof/legacy"), lc.bytes.clone(), Kind::Legacy(lc.len_fields.clone()), None, t);
    let env: AggEnv = honest::from_cbor_v1(&w.agg.to_bytes().unwrap()).unwrap();
    let t = into_agg(b, vec![]);
    b.push(&format!("{tag}ConcatenationProof/cbor-v1"), env.proof_bytes.clone(), Kind::Cbor, None, t);

    // ---- signature with registered party ---------------------------------------------------
    let sp = legacy::sig_with_party(&w.raw.sigs[0]);
    let sigreg_doors = |b: &B| -> Vec<Transport> {
        let mut t = vec![b.direct("stm::SingleSignatureWithRegisteredParty::from_bytes")];
        t.extend(into_agg(b, vec![("CBOR concatenation envelope signature_bytes[0]", wrap_concat_sig0.clone())]));
        t.extend(into_agg(b, vec![("legacy concatenation proof entry 0", wrap_legacy_concat_sig0.clone())]));
        t
    };
    // canonical form of the honest pair = its JSON in the aggregate
    let sigreg_canon = serde_json::to_value(&w.agg).ok().and_then(|j| j["signatures"][0].as_array().map(|_| Arc::new(j["signatures"][0].to_string())));
    let t = sigreg_doors(b);
    b.push(&format!("{tag}SingleSignatureWithRegisteredParty/legacy"), sp.bytes.clone(), Kind::Legacy(sp.len_fields.clone()), sigreg_canon.clone(), t);
    let t = sigreg_doors(b);
    b.push(&format!("{tag}SingleSignatureWithRegisteredParty/cbor-v1"), w.sig_reg_bytes[0].clone(), Kind::Cbor, sigreg_canon.clone(), t);

    // ---- single signature ------------------------------------------------------------------
    // the honest single signature that matches raw.sigs[0] is the one inside the aggregate
    let ss_bytes = sr0.signature_bytes.clone();
    let ss = mithril_stm::SingleSignature::from_bytes::<honest::D>(&ss_bytes).expect("honest single signature decodes");
    let ss_canon = canon(&ss);
    let dmq_frame: WrapFn = Arc::new(|p: &[u8]| {
        let set = SignedEntityType::MithrilStakeDistribution(Epoch(5)).to_bytes_vec().unwrap();
        let mut v = vec![];
        v.extend_from_slice(&(set.len() as u16).to_be_bytes());
        v.extend_from_slice(&set);
        v.extend_from_slice(&(p.len() as u32).to_be_bytes());
        v.extend_from_slice(p);
        v
    });
    let single_doors = |b: &B| -> Vec<Transport> {
        let mut t = vec![b.direct("stm::SingleSignature::from_bytes")];
        t.extend(b.key_doors(k_single, "bytes"));
        t.push(b.field(E_RSIG, &d.reg_signature, &["signature"]));
        t.push(wrapped(b.direct("common::RegisterSignatureMessageDmq::try_from_bytes"), vec![("DMQ frame", dmq_frame.clone())]));
        t.extend(into_agg(
            b,
            vec![("CBOR sig-reg envelope signature_bytes", wrap_sigreg_sig.clone()), ("CBOR concatenation envelope signature_bytes[0]", wrap_concat_sig0.clone())],
        ));
        t
    };
    let ls = legacy::single_signature(&w.raw.sigs[0]);
    let t = single_doors(b);
    b.push(&format!("{tag}SingleSignature/legacy"), ls.bytes.clone(), Kind::Legacy(ls.len_fields.clone()), Some(ss_canon.clone()), t);
    let t = single_doors(b);
    b.push(&format!("{tag}SingleSignature/cbor-v1"), ss_bytes.clone(), Kind::Cbor, Some(ss_canon.clone()), t);
    let mut t = b.key_doors(k_single, "json");
    t.push(b.field(E_RSIG, &d.reg_signature, &["signature"]));
    b.push(&format!("{tag}SingleSignature/json"), serde_json::to_vec(&ss).unwrap(), Kind::JsonText, Some(ss_canon.clone()), t);

    // ---- registration entry (only inside containers) ---------------------------------------
    let reg_doors = |b: &B| -> Vec<Transport> {
        into_agg(
            b,
            vec![("CBOR sig-reg envelope registration_entry_bytes", wrap_sigreg_reg.clone()), ("CBOR concatenation envelope signature_bytes[0]", wrap_concat_sig0.clone())],
        )
    };
    let t = reg_doors(b);
    b.push(&format!("{tag}ClosedRegistrationEntry/legacy"), legacy::reg_party(&w.raw.sigs[0]).bytes, Kind::Raw, None, t);
    let t = reg_doors(b);
    b.push(
        &format!("{tag}ClosedRegistrationEntry/cbor-v1"),
        cbor_v1(&RegEntryEnv { verification_key_bytes: w.raw.sigs[0].vk.clone(), stake: w.raw.sigs[0].stake }),
        Kind::Cbor,
        None,
        t,
    );

    // ---- Merkle batch path -------------------------------------------------------------------
    let path_doors = |b: &B| -> Vec<Transport> {
        let mut t = vec![wrapped(b.direct("stm::verif_export::batch_path_from_bytes"), vec![])];
        t.extend(into_agg(b, vec![("CBOR concatenation envelope batch_proof_bytes", wrap_concat_batch.clone())]));
        t
    };
    let lp = legacy::batch_path(&w.raw.path_values, &w.raw.path_indices);
    let t = path_doors(b);
    b.push(&format!("{tag}MerkleBatchPath/legacy"), lp.bytes.clone(), Kind::Legacy(lp.len_fields.clone()), None, t);
    let t = path_doors(b);
    b.push(&format!("{tag}MerkleBatchPath/cbor-v1"), w.batch_path_bytes.clone(), Kind::Cbor, None, t);

    // ---- aggregate verification key -------------------------------------------------------
    let avk_canon = canon(&w.avk);
    let avk_doors = |b: &B| -> Vec<Transport> {
        let mut t = vec![b.direct("stm::AggregateVerificationKeyForConcatenation::from_bytes")];
        t.extend(b.key_doors(k_avk, "bytes"));
        t.push(b.field(E_CERT, &d.cert_std, &["aggregate_verification_key"]));
        t
    };
    let t = avk_doors(b);
    b.push(&format!("{tag}AggregateVerificationKey/cbor-v1"), w.avk.to_bytes().unwrap(), Kind::Cbor, Some(avk_canon.clone()), t);
    let lk = legacy::avk(w.avk_nr_leaves, &w.avk_root, w.avk_total_stake);
    let t = avk_doors(b);
    b.push(&format!("{tag}AggregateVerificationKey/legacy"), lk.bytes.clone(), Kind::Legacy(lk.len_fields.clone()), Some(avk_canon.clone()), t);
    let mut t = b.key_doors(k_avk, "json");
    t.push(b.field(E_CERT, &d.cert_std, &["aggregate_verification_key"]));
    b.push(&format!("{tag}AggregateVerificationKey/json"), serde_json::to_vec(&w.avk).unwrap(), Kind::JsonText, Some(avk_canon), t);
    let lbc = legacy::batch_commitment(w.avk_nr_leaves, &w.avk_root);
    let t = vec![wrapped(b.direct("stm::verif_export::batch_commitment_from_bytes"), vec![])];
    b.push(&format!("{tag}MerkleTreeBatchCommitment/legacy"), lbc.bytes.clone(), Kind::Legacy(lbc.len_fields.clone()), None, t);

    // ---- verification key + proof of possession -------------------------------------------
    let vkpop = w.vkpops[0];
    let vk_canon = canon(&vkpop);
    let mut t = vec![b.direct("stm::VerificationKeyProofOfPossessionForConcatenation::from_bytes")];
    t.push(wrapped(b.direct("stm::VerificationKeyForConcatenation::from_bytes"), vec![]));
    t.extend(b.key_doors(k_vk, "bytes"));
    t.push(b.field(E_RSGN, &d.reg_signer, &["verification_key"]));
    t.push(b.field(E_MSD, &d.msd, &["signers", "0", "verification_key"]));
    b.push(&format!("{tag}VerificationKeyProofOfPossession/raw-192"), vkpop.to_bytes().to_vec(), Kind::Raw, Some(vk_canon.clone()), t);
    let mut t = b.key_doors(k_vk, "json");
    t.push(b.field(E_RSGN, &d.reg_signer, &["verification_key"]));
    t.push(b.field(E_MSD, &d.msd, &["signers", "0", "verification_key"]));
    b.push(&format!("{tag}VerificationKeyProofOfPossession/json"), serde_json::to_vec(&vkpop).unwrap(), Kind::JsonText, Some(vk_canon), t);

    // ---- parameters, initializer -------------------------------------------------------------
    let p = w.params;
    let t = vec![b.direct("stm::Parameters::from_bytes")];
    b.push(&format!("{tag}Parameters/cbor-v1"), p.to_bytes().unwrap(), Kind::Cbor, Some(canon(&p)), t);
    let t = vec![b.direct("stm::Parameters::from_bytes")];
    b.push(&format!("{tag}Parameters/legacy"), legacy::parameters(p.m, p.k, p.phi_f).bytes, Kind::Raw, Some(canon(&p)), t);
    let init = &w.initializers[0];
    let ij = serde_json::to_value(init).unwrap();
    let init_canon = canon(init);
    let t = vec![b.direct("stm::Initializer::from_bytes")];
    b.push(&format!("{tag}Initializer/cbor-v1"), init.to_bytes().unwrap(), Kind::Cbor, Some(init_canon.clone()), t);
    let sk = honest::bytes_of(&ij["sk"]);
    let li = legacy::initializer(init.stake, p.m, p.k, p.phi_f, &sk, &vkpop.to_bytes());
    let t = vec![b.direct("stm::Initializer::from_bytes")];
    b.push(&format!("{tag}Initializer/legacy"), li.bytes, Kind::Raw, Some(init_canon), t);
    // common wrapper: be64(len) || initializer [|| KES signature]
    for with_kes in [false, true] {
        let ib = init.to_bytes().unwrap();
        let mut e = Enc::new();
        e.len_field("StmInitializerWrapper.stm_initializer_size", ib.len() as u64).raw(&ib);
        if with_kes {
            let k: ProtocolSignerVerificationKeySignatureForConcatenation = fake_keys::signer_verification_key_signature()[0].try_into().unwrap();
            e.raw(&k.to_bytes_vec().unwrap());
        }
        let t = vec![wrapped(b.direct("common::ProtocolInitializer(StmInitializerWrapper)::from_bytes"), vec![])];
        b.push(
            &format!("{tag}StmInitializerWrapper/{}", if with_kes { "with KES signature" } else { "without KES signature" }),
            e.bytes.clone(),
            Kind::Legacy(e.len_fields.clone()),
            None,
            t,
        );
    }
}

/// bases that do not depend on an STM world
fn fixed_bases(b: &mut B, d: &Docs, rng: &mut ChaCha20Rng) {
    // ---- Merkle tree (crate private; verif_export) -------------------------------------------
    {
        let nodes: Vec<Vec<u8>> = (0..3).map(|_| rnd::bytes(rng, 32)).collect();
        let lt = legacy::merkle_tree(2, &nodes);
        let t = vec![wrapped(b.direct("stm::verif_export::tree_from_bytes"), vec![])];
        b.push("MerkleTree/legacy", lt.bytes.clone(), Kind::Legacy(lt.len_fields.clone()), None, t);
    }
    // ---- protocol parameters: value diversity (u64 extremes, many doubles) ------------------
    for i in 0..12u64 {
        let p = mithril_stm::Parameters {
            m: crate::util::interesting_u64(rng) & 0x00ff_ffff_ffff_ffff, // top byte 1 would select the CBOR branch for legacy bytes
            k: crate::util::interesting_u64(rng),
            phi_f: match i {
                0 => 0.2,
                1 => 0.65,
                2 => 0.9,
                3 => f64::MIN_POSITIVE,
                4 => 1.0 - f64::EPSILON / 2.0,
                _ => rnd::f64_unit(rng),
            },
        };
        let c = canon(&p);
        let t = vec![b.direct("stm::Parameters::from_bytes")];
        b.push(&format!("Parameters#{i}/cbor-v1"), p.to_bytes().unwrap(), Kind::Cbor, Some(c.clone()), t);
        let t = vec![b.direct("stm::Parameters::from_bytes")];
        b.push(&format!("Parameters#{i}/legacy"), legacy::parameters(p.m, p.k, p.phi_f).bytes, Kind::Raw, Some(c), t);
    }
    // ---- KES signature, operational certificate, ed25519 ---------------------------------
    let k_kes = "common::ProtocolSignerVerificationKeySignatureForConcatenation(Sum6KesSig)";
    for (i, h) in fake_keys::signer_verification_key_signature().iter().enumerate() {
        let k: ProtocolSignerVerificationKeySignatureForConcatenation = (*h).try_into().unwrap();
        let c = canon(&*k);
        let mut t = vec![b.direct("common::Sum6KesSig::try_from_bytes")];
        t.extend(b.key_doors(k_kes, "bytes"));
        t.push(b.field(E_RSGN, &d.reg_signer, &["verification_key_signature"]));
        b.push(&format!("Sum6KesSig#{i}/raw-448"), k.to_bytes_vec().unwrap(), Kind::Raw, Some(c.clone()), t);
        let mut t = b.key_doors(k_kes, "json");
        t.push(b.field(E_RSGN, &d.reg_signer, &["verification_key_signature"]));
        b.push(&format!("Sum6KesSig#{i}/json"), json_hex_to_text(h).into_bytes(), Kind::JsonText, Some(c), t);
    }
    let k_op = "common::ProtocolOpCert";
    for (i, h) in fake_keys::operational_certificate().iter().enumerate() {
        let k: ProtocolOpCert = (*h).try_into().unwrap();
        let c = canon(&*k);
        let mut t = vec![b.direct("common::OpCert::try_from_bytes")];
        t.extend(b.key_doors(k_op, "bytes"));
        t.push(b.field(E_RSGN, &d.reg_signer, &["operational_certificate"]));
        t.push(b.field(E_MSD, &d.msd, &["signers", "0", "operational_certificate"]));
        b.push(&format!("OpCert#{i}/cbor"), k.to_bytes_vec().unwrap(), Kind::Raw, Some(c.clone()), t);
        let mut t = b.key_doors(k_op, "json");
        t.push(b.field(E_RSGN, &d.reg_signer, &["operational_certificate"]));
        b.push(&format!("OpCert#{i}/json"), json_hex_to_text(h).into_bytes(), Kind::JsonText, Some(c), t);
    }
    {
        let k_gs = "common::ProtocolGenesisSignature(ed25519)";
        let g: GenesisEd25519Signature = fake_keys::genesis_signature()[0].try_into().unwrap();
        let c = canon(&*g);
        let mut t = vec![b.direct("common::ProtocolKey<ed25519 Signature>::from_bytes")];
        t.extend(b.key_doors(k_gs, "bytes"));
        t.push(b.field(E_CERT, &d.cert_genesis, &["genesis_signature"]));
        b.push("Ed25519Signature/raw-64", g.to_bytes_vec().unwrap(), Kind::Raw, Some(c.clone()), t);
        let t = b.key_doors(k_gs, "json");
        b.push("Ed25519Signature/json", serde_json::to_vec(&*g).unwrap(), Kind::JsonText, Some(c), t);
        let k_gv = "common::ProtocolGenesisVerificationKey(ed25519)";
        let v: GenesisEd25519VerificationKey = fake_keys::genesis_verification_key()[0].try_into().unwrap();
        let c = canon(&*v);
        let mut t = vec![b.direct("common::ProtocolKey<ed25519 VerifyingKey>::from_bytes")];
        t.extend(b.key_doors(k_gv, "bytes"));
        b.push("Ed25519VerificationKey/raw-32", v.to_bytes_vec().unwrap(), Kind::Raw, Some(c.clone()), t);
        let t = b.key_doors(k_gv, "json");
        b.push("Ed25519VerificationKey/json", serde_json::to_vec(&*v).unwrap(), Kind::JsonText, Some(c), t);
    }
    // ---- honest ed25519 values for EVERY first byte ----------------------------------------------
    // the string form of these keys is bytes-hex, and the decoders try several formats on one
    // string: an honest value whose hex happens to start like another format ("5b" = '[', "7b" =
    // '{', "22" = '"', digits, "01" = the CBOR-v1 prefix ...) must still round-trip. One honest
    // signature and one honest verification key per first-byte value, honest items only.
    {
        use mithril_common::crypto_helper::ed25519::Ed25519Signer;
        let k_gs = "common::ProtocolGenesisSignature(ed25519)";
        let k_gv = "common::ProtocolGenesisVerificationKey(ed25519)";
        let signer = Ed25519Signer::create_deterministic_signer();
        let mut seen_s = [false; 256];
        let mut seen_v = [false; 256];
        let (mut ns, mut nv) = (0, 0);
        for i in 0u32..20_000 {
            if ns < 256 {
                let g = signer.sign(&i.to_le_bytes());
                let bytes = g.to_bytes_vec().unwrap();
                if !seen_s[bytes[0] as usize] {
                    seen_s[bytes[0] as usize] = true;
                    ns += 1;
                    let c = canon(&*g);
                    let mut t = vec![b.direct("common::ProtocolKey<ed25519 Signature>::from_bytes")];
                    t.extend(b.key_doors(k_gs, "bytes"));
                    b.push(&format!("honest-only:Ed25519Signature first byte {:02x}", bytes[0]), bytes, Kind::Raw, Some(c), t);
                }
            }
            if nv < 256 {
                let mut seed = [0u8; 32];
                seed[..4].copy_from_slice(&i.to_le_bytes());
                let v = Ed25519Signer::create_test_signer(<rand_chacha::ChaCha20Rng as rand_core::SeedableRng>::from_seed(seed)).verification_key();
                let bytes = v.to_bytes_vec().unwrap();
                if !seen_v[bytes[0] as usize] {
                    seen_v[bytes[0] as usize] = true;
                    nv += 1;
                    let c = canon(&*v);
                    let mut t = vec![b.direct("common::ProtocolKey<ed25519 VerifyingKey>::from_bytes")];
                    t.extend(b.key_doors(k_gv, "bytes"));
                    b.push(&format!("honest-only:Ed25519VerificationKey first byte {:02x}", bytes[0]), bytes, Kind::Raw, Some(c), t);
                }
            }
            if ns == 256 && nv == 256 {
                break;
            }
        }
    }
    // ---- Merkle proofs -----------------------------------------------------------------------
    {
        let leaves: Vec<MKTreeNode> = (0..7).map(|i| MKTreeNode::from(format!("leaf-{i}").as_str())).collect();
        let tree = MKTree::<MKTreeStoreInMemory>::new(&leaves).unwrap();
        let proof: MKProof = tree.compute_proof(&leaves[2..5]).unwrap();
        let c = canon(&proof);
        let k = "common::ProtocolKey<MKProof>";
        let mut t = vec![b.direct("common::MKProof::from_bytes")];
        t.push(wrapped(b.direct("diag::MKProof::from_bytes+verify"), vec![]));
        t.extend(b.key_doors(k, "bytes"));
        b.push("MKProof/bincode", proof.to_bytes().unwrap(), Kind::Bincode, Some(c.clone()), t);
        let t = b.key_doors(k, "json");
        b.push("MKProof/json", serde_json::to_vec(&proof).unwrap(), Kind::JsonText, Some(c), t);
    }
    {
        let v1 = CardanoTransactionsSetProofMessagePart::dummy();
        let p = ProtocolMkProof::from_json_hex(&v1.proof).unwrap();
        let c = canon(&*p);
        let t = vec![
            b.direct("common::MKMapProof<BlockRange>::from_bytes"),
            wrapped(b.direct("diag::MKMapProof<BlockRange>::from_bytes+verify"), vec![]),
            b.hex("common::ProtocolMkProof::from_bytes_hex"),
            b.field(E_TXV2, &d.tx_proofs_v2, &["certified_transactions", "proof"]),
            b.field(E_BLK, &d.blocks_proofs, &["certified_blocks", "proof"]),
        ];
        b.push("MKMapProof(transactions v1 dummy)/bincode", p.to_bytes_vec().unwrap(), Kind::Bincode, Some(c.clone()), t);
        let t = vec![b.hex("common::ProtocolMkProof::from_json_hex"), b.field(E_TXV1, &d.tx_proofs_v1, &["certified_transactions", "0", "proof"])];
        b.push("MKMapProof(transactions v1 dummy)/json", serde_json::to_vec(&*p).unwrap(), Kind::JsonText, Some(c), t);
        for (label, h) in [
            ("MKMapProof(transactions v2 dummy)/bincode", MkSetProofMessagePart::<CardanoTransactionMessagePart>::dummy().proof),
            ("MKMapProof(blocks dummy)/bincode", MkSetProofMessagePart::<CardanoBlockMessagePart>::dummy().proof),
        ] {
            let p = ProtocolMkProof::from_bytes_hex(&h).unwrap();
            let t = vec![
                b.direct("common::MKMapProof<BlockRange>::from_bytes"),
                b.hex("common::ProtocolMkProof::from_bytes_hex"),
                b.field(E_TXV2, &d.tx_proofs_v2, &["certified_transactions", "proof"]),
                b.field(E_BLK, &d.blocks_proofs, &["certified_blocks", "proof"]),
            ];
            b.push(label, p.to_bytes_vec().unwrap(), Kind::Bincode, Some(canon(&*p)), t);
        }
    }
    // ---- signed entity type (bincode), DMQ frame -----------------------------------------
    for (i, set) in [
        SignedEntityType::MithrilStakeDistribution(Epoch(5)),
        SignedEntityType::CardanoDatabase(CardanoDbBeacon::new(7, 1234)),
        SignedEntityType::CardanoBlocksTransactions(Epoch(u64::MAX), BlockNumber(1 << 40), mithril_common::entities::BlockNumberOffset(15)),
    ]
    .iter()
    .enumerate()
    {
        let t = vec![b.direct("common::SignedEntityType::try_from_bytes")];
        b.push(&format!("SignedEntityType#{i}/bincode"), set.to_bytes_vec().unwrap(), Kind::Bincode, Some(canon(set)), t);
    }
    {
        let m = RegisterSignatureMessageDmq::dummy();
        let bytes = m.try_to_bytes_vec().unwrap();
        let set_len = u16::from_be_bytes([bytes[0], bytes[1]]) as usize;
        let t = vec![wrapped(b.direct("common::RegisterSignatureMessageDmq::try_from_bytes"), vec![])];
        b.push("RegisterSignatureMessageDmq/frame", bytes, Kind::Frame(vec![(0, 2), (2 + set_len, 4)]), None, t);
    }
    // ---- JSON documents ----------------------------------------------------------------------
    for (label, entry, doc) in [
        ("CertificateMessage(standard)/json document", E_CERT, &d.cert_std),
        ("CertificateMessage(genesis)/json document", E_CERT, &d.cert_genesis),
        ("CardanoTransactionsProofsMessage/json document", E_TXV1, &d.tx_proofs_v1),
        ("CardanoTransactionsProofsV2Message/json document", E_TXV2, &d.tx_proofs_v2),
        ("CardanoBlocksProofsMessage/json document", E_BLK, &d.blocks_proofs),
        ("RegisterSignatureMessageHttp/json document", E_RSIG, &d.reg_signature),
        ("RegisterSignerMessage/json document", E_RSGN, &d.reg_signer),
        ("MithrilStakeDistributionMessage/json document", E_MSD, &d.msd),
    ] {
        let t = vec![wrapped(b.t(entry, Carrier::Direct, false), vec![])];
        b.push(label, serde_json::to_vec(&**doc).unwrap(), Kind::JsonDoc, None, t);
    }
}

pub fn build_corpus(entries: &[Entry], seed: u64, n_worlds: u64) -> Corpus {
    let mut rng = ChaCha20Rng::from_seed(vcore::derive_seed(seed, "C05", "corpus", 0));
    let d = docs();
    let mut b = B { entries, out: vec![] };
    for i in 0..n_worlds {
        let w = honest::random_world(&mut rng, i);
        let tag = if n_worlds > 1 { format!("w{i}:") } else { String::new() };
        world_bases(&mut b, &w, &d, &tag);
    }
    fixed_bases(&mut b, &d, &mut rng);
    Corpus { bases: b.out }
}

// ---------------------------------------------------------------------------------------------
// items

pub struct Budget {
    pub trunc_max: usize,
    pub cbor_heads: usize,
    pub bincode_positions: usize,
    pub json_nodes: usize,
    /// 1/n of the non-key mutants also go through the secondary transports
    pub secondary_one_in: u64,
    pub cbor_depths: Vec<usize>,
    pub bincode_depths: Vec<usize>,
    pub json_depths: Vec<usize>,
    pub random_per_round: usize,
    pub random_rounds: u64,
    pub n_worlds: u64,
}

pub fn budget(tier: Tier) -> Budget {
    match tier {
        Tier::Quick => Budget {
            trunc_max: 120,
            cbor_heads: 24,
            bincode_positions: 60,
            json_nodes: 12,
            secondary_one_in: 6,
            cbor_depths: vec![64, 300, 5_000, 100_000],
            bincode_depths: vec![3, 100, 2_000, 20_000, 150_000],
            json_depths: vec![127, 129, 5_000, 100_000],
            random_per_round: 700,
            random_rounds: 3,
            n_worlds: 1,
        },
        Tier::Thorough => Budget {
            trunc_max: 700,
            cbor_heads: 200,
            bincode_positions: 400,
            json_nodes: 60,
            secondary_one_in: 1,
            cbor_depths: vec![64, 257, 1_000, 20_000, 1_000_000],
            bincode_depths: vec![3, 100, 1_000, 5_000, 20_000, 150_000, 1_000_000],
            json_depths: vec![127, 128, 129, 1_000, 100_000, 1_000_000],
            random_per_round: 1_500,
            random_rounds: 40,
            n_worlds: 4,
        },
    }
}

fn mutants_of(base: &Base, bud: &Budget, rng: &mut ChaCha20Rng) -> Vec<Mutant> {
    let mut v: Vec<Mutant> = vec![];
    match &base.kind {
        Kind::Legacy(fields) => {
            let e = Enc { bytes: base.bytes.clone(), len_fields: fields.clone() };
            v.extend(mutate::legacy_len_mutants(&e));
            let bounds: Vec<usize> = fields.iter().map(|(o, _)| *o).collect();
            v.extend(mutate::truncations(&base.bytes, &bounds, rng, bud.trunc_max));
            v.extend(mutate::first_byte_flips(&base.bytes));
            v.extend(mutate::extensions(&base.bytes, rng));
        }
        Kind::Cbor => {
            v.extend(mutate::cbor_head_mutants(&base.bytes, bud.cbor_heads, rng));
            v.extend(mutate::truncations(&base.bytes, &[], rng, bud.trunc_max));
            v.extend(mutate::first_byte_flips(&base.bytes));
            v.extend(mutate::extensions(&base.bytes, rng));
        }
        Kind::Raw => {
            v.extend(mutate::truncations(&base.bytes, &[], rng, bud.trunc_max.max(200)));
            v.extend(mutate::first_byte_flips(&base.bytes));
            v.extend(mutate::extensions(&base.bytes, rng));
        }
        Kind::Bincode => {
            v.extend(mutate::bincode_len_mutants(&base.bytes, bud.bincode_positions, rng));
            v.extend(mutate::truncations(&base.bytes, &[], rng, bud.trunc_max));
            v.extend(mutate::extensions(&base.bytes, rng));
        }
        Kind::JsonText | Kind::JsonDoc => {
            if let Ok(t) = std::str::from_utf8(&base.bytes) {
                v.extend(mutate::json_text_mutants(t, rng, bud.json_nodes, &bud.json_depths));
            }
        }
        Kind::Frame(fields) => {
            for (off, width) in fields {
                let vals: Vec<u64> = if *width == 2 { vec![0, 1, 0x7fff, 0xffff] } else { vec![0, 1, 1 << 16, 1 << 31, 0xffff_fff0, 0xffff_ffff] };
                for val in vals {
                    let mut x = base.bytes.clone();
                    let be = val.to_be_bytes();
                    x[*off..*off + *width].copy_from_slice(&be[8 - *width..]);
                    v.push(Mutant { class: format!("frame length field (u{}) := {val:#x}", width * 8), bytes: x, key: true });
                }
            }
            v.extend(mutate::truncations(&base.bytes, &[], rng, bud.trunc_max));
            v.extend(mutate::extensions(&base.bytes, rng));
        }
    }
    v
}

/// The deterministic, structure-aware part of the workload: the same list in every shard for a
/// given seed and tier; a shard materialises only the items whose index is congruent to it.
/// Returns (items of the shard, size of the whole list).
pub fn structured_items(c: &Corpus, entries: &[Entry], seed: u64, tier: Tier, shard: u64, n_shards: u64) -> (Vec<Item>, u64) {
    let bud = budget(tier);
    let mut rng = ChaCha20Rng::from_seed(vcore::derive_seed(seed, "C05", "structured", 0));
    let mut items: Vec<Item> = vec![];
    let mut idx: u64 = 0;
    let mut emit = |make: &dyn Fn() -> Item| {
        if idx % n_shards == shard {
            items.push(make());
        }
        idx += 1;
    };
    for base in &c.bases {
        // honest encoding through every transport
        for t in &base.transports {
            emit(&|| Item {
                entry: t.entry,
                input: t.carry(&base.bytes),
                class: format!("{} | honest | {}", base.label, t.label()),
                expect: if t.check { base.canon.clone() } else { None },
                honest: true,
                structured: true,
            });
        }
        if base.label.starts_with("honest-only:") {
            continue;
        }
        // anomalies of the hex transport itself
        for t in &base.transports {
            if matches!(t.carrier, Carrier::Direct) {
                continue;
            }
            let mut b = base.bytes.clone();
            for (_, w) in &t.wraps {
                b = w(&b);
            }
            for mu in mutate::hex_text_mutants(&hex::encode(&b)) {
                if !mu.key && !t.wraps.is_empty() {
                    continue;
                }
                if t.carry_text(b"00").is_some() {
                    emit(&|| Item {
                        entry: t.entry,
                        input: t.carry_text(&mu.bytes).unwrap_or_default(),
                        class: format!("{} | {} | {}", base.label, mu.class, t.label()),
                        expect: None,
                        honest: false,
                        structured: true,
                    });
                }
            }
        }
        for mu in mutants_of(base, &bud, &mut rng) {
            for (ti, t) in base.transports.iter().enumerate() {
                let take = mu.key || ti == 0 || rnd::below(&mut rng, bud.secondary_one_in) == 0;
                if !take {
                    continue;
                }
                emit(&|| Item {
                    entry: t.entry,
                    input: t.carry(&mu.bytes),
                    class: format!("{} | {} | {}", base.label, mu.class, t.label()),
                    expect: None,
                    honest: false,
                    structured: true,
                });
            }
        }
    }
    // bombs: independent of a base, sent to every door of the matching wire format
    let cbor_bombs = mutate::cbor_bombs(&bud.cbor_depths);
    let binc_bombs = mutate::bincode_bombs(&bud.bincode_depths);
    let mut seen_cbor = std::collections::BTreeSet::new();
    let mut seen_binc = std::collections::BTreeSet::new();
    for base in &c.bases {
        for t in &base.transports {
            // one representative transport per (entry, carrier kind, wrapper chain)
            let key = format!("{}|{}", t.entry, t.label());
            if matches!(base.kind, Kind::Cbor | Kind::Legacy(_) | Kind::Raw) && seen_cbor.insert(key.clone()) {
                for mu in &cbor_bombs {
                    emit(&|| Item { entry: t.entry, input: t.carry(&mu.bytes), class: format!("{} | {} | {}", base.label, mu.class, t.label()), expect: None, honest: false, structured: true });
                }
            }
            if matches!(base.kind, Kind::Bincode) && base.label.starts_with("MKMapProof") && seen_binc.insert(key) {
                for mu in &binc_bombs {
                    emit(&|| Item { entry: t.entry, input: t.carry(&mu.bytes), class: format!("{} | {} | {}", base.label, mu.class, t.label()), expect: None, honest: false, structured: true });
                }
            }
        }
    }
    let _ = entries;
    (items, idx)
}

/// the random part: per (shard, round) rng
pub fn random_items(c: &Corpus, entries: &[Entry], seed: u64, tier: Tier, shard: u64, round: u64) -> Vec<Item> {
    let bud = budget(tier);
    let mut rng = ChaCha20Rng::from_seed(vcore::derive_seed(seed, "C05", &format!("random-{round}"), shard));
    let mut items = vec![];
    // diagnostic doors (verif_export, decode+verify) only get the structured part
    let bytes_entries: Vec<usize> = entries.iter().enumerate().filter(|(_, e)| e.form == Form::Bytes && !e.diagnostic).map(|(i, _)| i).collect();
    let havoc_bases: Vec<&Base> = c.bases.iter().filter(|b| b.transports.iter().any(|t| !entries[t.entry].diagnostic)).collect();
    let hex_entries: Vec<usize> = entries.iter().enumerate().filter(|(_, e)| e.form == Form::HexStr).map(|(i, _)| i).collect();
    let json_entries: Vec<usize> = entries.iter().enumerate().filter(|(_, e)| e.form == Form::Json).map(|(i, _)| i).collect();
    for _ in 0..bud.random_per_round {
        match rnd::below(&mut rng, 10) {
            // random bytes of length 0..4096 to a binary door
            0 | 1 => {
                let n = match rnd::below(&mut rng, 4) {
                    0 => rnd::usize_below(&mut rng, 17),
                    1 => rnd::usize_below(&mut rng, 300),
                    _ => rnd::usize_below(&mut rng, 4097),
                };
                let mut b = rnd::bytes(&mut rng, n);
                // steer half of them into the versioned / legacy switches
                if !b.is_empty() && rnd::chance(&mut rng, 1, 2) {
                    b[0] = *rnd::pick(&mut rng, &[0u8, 1, 1, 2]);
                }
                let e = *rnd::pick(&mut rng, &bytes_entries);
                items.push(Item { entry: e, input: b, class: "random bytes | bytes".into(), expect: None, honest: false, structured: false });
            }
            // hex of random bytes / random text to a hex door
            2 => {
                let n = rnd::usize_below(&mut rng, 600);
                let mut b = rnd::bytes(&mut rng, n);
                if !b.is_empty() && rnd::chance(&mut rng, 1, 2) {
                    b[0] = *rnd::pick(&mut rng, &[0u8, 1, b'{', b'[']);
                }
                let e = *rnd::pick(&mut rng, &hex_entries);
                let input = if rnd::chance(&mut rng, 5, 6) { hex::encode(&b).into_bytes() } else { b };
                items.push(Item { entry: e, input, class: "random bytes | hex".into(), expect: None, honest: false, structured: false });
            }
            // random edits of a JSON document
            3 => {
                let docs: Vec<&Base> = c.bases.iter().filter(|b| matches!(b.kind, Kind::JsonDoc)).collect();
                let base = *rnd::pick(&mut rng, &docs);
                let other = *rnd::pick(&mut rng, &docs);
                let mu = mutate::havoc(&base.bytes, &other.bytes, &mut rng);
                let e = if rnd::chance(&mut rng, 3, 4) { base.transports[0].entry } else { *rnd::pick(&mut rng, &json_entries) };
                items.push(Item { entry: e, input: mu.bytes, class: format!("{} | {} | bytes", base.label, mu.class), expect: None, honest: false, structured: false });
            }
            // havoc on a base, through a random transport of it
            _ => {
                let base = *rnd::pick(&mut rng, &havoc_bases);
                let other = *rnd::pick(&mut rng, &havoc_bases);
                let mu = mutate::havoc(&base.bytes, &other.bytes, &mut rng);
                let live: Vec<&Transport> = base.transports.iter().filter(|t| !entries[t.entry].diagnostic).collect();
                let t = *rnd::pick(&mut rng, &live);
                items.push(Item {
                    entry: t.entry,
                    input: t.carry(&mu.bytes),
                    class: format!("{} | {} | {}", base.label, mu.class, t.label()),
                    expect: None,
                    honest: false,
                    structured: false,
                });
            }
        }
    }
    let _ = rng.next_u32();
    items
}
