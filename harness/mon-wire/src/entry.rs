//! C05 entry points: every public decoder of the wire types, by name.
//!
//! An entry takes raw input bytes. String-typed entries (hex strings, JSON documents) receive the
//! bytes as UTF-8 text (invalid UTF-8 never reaches a `&str` API: counted as `error` without a call,
//! exactly what `String::from_utf8` of an HTTP body would do).
use kes_summed_ed25519::kes::Sum6KesSig;
use mithril_common::crypto_helper::{
    GenesisEd25519Signature, GenesisEd25519VerificationKey, MKMapProof, MKProof, OpCert,
    ProtocolAggregateVerificationKeyForConcatenation, ProtocolAncillaryProverData,
    ProtocolAncillaryVerifierData, ProtocolInitializer, ProtocolKey, ProtocolMkProof,
    ProtocolMultiSignature, ProtocolOpCert, ProtocolSignerVerificationKeyForConcatenation,
    ProtocolSignerVerificationKeySignatureForConcatenation, ProtocolSingleSignature, TryFromBytes,
};
use mithril_common::entities::{
    BlockRange, CardanoBlock, CardanoTransaction, CardanoTransactionsSetProof, Certificate,
    MkSetProof, SignedEntityType, Signer, SignerWithStake, SingleSignature as SingleSignatureEntity,
    SingleSignatureAuthenticationStatus,
};
use mithril_common::messages::{
    CardanoBlocksProofsMessage, CardanoTransactionsProofsMessage, CardanoTransactionsProofsV2Message,
    CertificateMessage, MithrilStakeDistributionMessage, RegisterSignatureMessageDmq,
    RegisterSignatureMessageHttp, RegisterSignerMessage, SignerWithStakeMessagePart,
};
use mithril_stm::{
    AggregateSignature, AggregateVerificationKeyForConcatenation, AncillaryProverData,
    AncillaryVerifierData, Initializer, MithrilMembershipDigest, Parameters, SingleSignature,
    SingleSignatureWithRegisteredParty, VerificationKeyForConcatenation,
    VerificationKeyProofOfPossessionForConcatenation,
};
use serde::Serialize;

type D = MithrilMembershipDigest;

#[derive(Clone, Copy, PartialEq, Eq, Debug)]
pub enum Form {
    /// raw bytes
    Bytes,
    /// a hex string (bytes-hex or json-hex)
    HexStr,
    /// a JSON document
    Json,
}

pub enum Out {
    /// decoded; canonical re-encoding of the value when asked for
    Value(String),
    Error,
}

pub struct Entry {
    pub name: &'static str,
    pub form: Form,
    /// not reachable from data of another node in a normal build (verif_export): diagnostic only
    pub diagnostic: bool,
    pub f: fn(&[u8], bool) -> Out,
}

fn canon<T: Serialize>(v: &T) -> String {
    serde_json::to_string(v).unwrap_or_else(|e| format!("<not serialisable: {e}>"))
}

fn val<T>(want: bool, v: &T, c: impl FnOnce(&T) -> String) -> Out {
    Out::Value(if want { c(v) } else { String::new() })
}

macro_rules! bytes_entry {
    ($name:expr, $diag:expr, $ty:ty, $decode:expr, $canon:expr) => {
        Entry {
            name: $name,
            form: Form::Bytes,
            diagnostic: $diag,
            f: |b: &[u8], want: bool| {
                let r: Result<$ty, _> = ($decode)(b);
                match r {
                    Ok(v) => val(want, &v, $canon),
                    Err(_) => Out::Error,
                }
            },
        }
    };
}

macro_rules! str_entry {
    ($name:expr, $form:expr, $ty:ty, $decode:expr, $canon:expr) => {
        Entry {
            name: $name,
            form: $form,
            diagnostic: false,
            f: |b: &[u8], want: bool| {
                let Ok(s) = std::str::from_utf8(b) else { return Out::Error };
                let r: Result<$ty, _> = ($decode)(s);
                match r {
                    Ok(v) => val(want, &v, $canon),
                    Err(_) => Out::Error,
                }
            },
        }
    };
}

/// the four string-side doors of a `ProtocolKey<T>` that has a codec
macro_rules! key_entries {
    ($v:ident, $label:expr, $alias:ty) => {
        $v.push(str_entry!(concat!($label, "::from_bytes_hex"), Form::HexStr, $alias, |s: &str| <$alias>::from_bytes_hex(s), |k: &$alias| canon(&**k)));
        $v.push(str_entry!(concat!($label, "::from_json_hex"), Form::HexStr, $alias, |s: &str| <$alias>::from_json_hex(s), |k: &$alias| canon(&**k)));
        $v.push(str_entry!(concat!($label, "::try_from(&str)"), Form::HexStr, $alias, |s: &str| <$alias>::try_from(s), |k: &$alias| canon(&**k)));
        $v.push(str_entry!(
            concat!($label, "::deserialize(json string)"),
            Form::HexStr,
            $alias,
            |s: &str| {
                // the hex text as a JSON string literal
                let lit = serde_json::to_string(s).unwrap_or_default();
                serde_json::from_str::<$alias>(&lit)
            },
            |k: &$alias| canon(&**k)
        ));
    };
}

/// aggregator-side adapter of RegisterSignerMessage (mithril-aggregator FromRegisterSignerAdapter:
/// field-wise `try_into` of the key strings), rebuilt on the public mithril-common API
fn adapt_register_signer(m: RegisterSignerMessage) -> anyhow::Result<Signer> {
    Ok(Signer {
        party_id: m.party_id,
        verification_key_for_concatenation: m.verification_key_for_concatenation.try_into()?,
        verification_key_signature_for_concatenation: m.verification_key_signature_for_concatenation.map(|s| s.try_into()).transpose()?,
        operational_certificate: m.operational_certificate.map(|s| s.try_into()).transpose()?,
        kes_evolutions: m.kes_evolutions,
    })
}

/// mithril-aggregator FromRegisterSingleSignatureAdapter
fn adapt_register_signature(m: RegisterSignatureMessageHttp) -> anyhow::Result<SingleSignatureEntity> {
    Ok(SingleSignatureEntity {
        party_id: m.party_id,
        signature: m.signature.try_into()?,
        won_indexes: m.won_indexes,
        authentication_status: SingleSignatureAuthenticationStatus::Unauthenticated,
    })
}

pub fn entries() -> Vec<Entry> {
    let mut v: Vec<Entry> = vec![];
    // ---- mithril-stm, binary ----------------------------------------------------------------
    v.push(bytes_entry!("stm::SingleSignature::from_bytes", false, SingleSignature, |b| SingleSignature::from_bytes::<D>(b), |x| canon(x)));
    v.push(bytes_entry!(
        "stm::SingleSignatureWithRegisteredParty::from_bytes",
        false,
        SingleSignatureWithRegisteredParty,
        |b| SingleSignatureWithRegisteredParty::from_bytes::<D>(b),
        |x| canon(x)
    ));
    v.push(bytes_entry!("stm::AggregateSignature::from_bytes", false, AggregateSignature<D>, |b| AggregateSignature::<D>::from_bytes(b), |x| canon(x)));
    v.push(bytes_entry!(
        "stm::AggregateVerificationKeyForConcatenation::from_bytes",
        false,
        AggregateVerificationKeyForConcatenation<D>,
        |b| AggregateVerificationKeyForConcatenation::<D>::from_bytes(b),
        |x| canon(x)
    ));
    v.push(bytes_entry!("stm::VerificationKeyForConcatenation::from_bytes", false, VerificationKeyForConcatenation, |b| VerificationKeyForConcatenation::from_bytes(b), |x| canon(x)));
    v.push(bytes_entry!(
        "stm::VerificationKeyProofOfPossessionForConcatenation::from_bytes",
        false,
        VerificationKeyProofOfPossessionForConcatenation,
        |b| VerificationKeyProofOfPossessionForConcatenation::from_bytes(b),
        |x| canon(x)
    ));
    v.push(bytes_entry!("stm::Initializer::from_bytes", false, Initializer, |b| Initializer::from_bytes(b), |x| canon(x)));
    v.push(bytes_entry!("stm::Parameters::from_bytes", false, Parameters, |b| Parameters::from_bytes(b), |x| canon(x)));
    v.push(bytes_entry!("stm::AncillaryProverData::from_bytes", false, AncillaryProverData, |b| AncillaryProverData::from_bytes(b), |_x| String::new()));
    v.push(bytes_entry!("stm::AncillaryVerifierData::from_bytes", false, AncillaryVerifierData, |b| AncillaryVerifierData::from_bytes(b), |_x| String::new()));
    // crate-private Merkle types, through the verif_export hook (diagnostic: MerkleBatchPath and the
    // batch commitment are also reached through AggregateSignature / the aggregate key above)
    v.push(bytes_entry!(
        "stm::verif_export::batch_path_from_bytes",
        true,
        mithril_stm::verif_export::BatchPath,
        |b| mithril_stm::verif_export::batch_path_from_bytes(b),
        |x| format!("{:?}", x)
    ));
    v.push(bytes_entry!(
        "stm::verif_export::batch_commitment_from_bytes",
        true,
        (Vec<u8>, usize),
        |b| mithril_stm::verif_export::batch_commitment_from_bytes(b),
        |x| format!("{:?}", x)
    ));
    v.push(bytes_entry!(
        "stm::verif_export::tree_from_bytes",
        true,
        mithril_stm::verif_export::Tree,
        |b| mithril_stm::verif_export::tree_from_bytes(b),
        |x| x.to_bytes().map(hex::encode).unwrap_or_default()
    ));
    // ---- mithril-common, binary -------------------------------------------------------------
    v.push(bytes_entry!("common::ProtocolInitializer(StmInitializerWrapper)::from_bytes", false, ProtocolInitializer, |b| ProtocolInitializer::from_bytes(b), |x| canon(x)));
    v.push(bytes_entry!("common::Sum6KesSig::try_from_bytes", false, Sum6KesSig, |b| <Sum6KesSig as TryFromBytes>::try_from_bytes(b), |x| canon(x)));
    v.push(bytes_entry!("common::OpCert::try_from_bytes", false, OpCert, |b| <OpCert as TryFromBytes>::try_from_bytes(b), |x| canon(x)));
    v.push(bytes_entry!("common::MKProof::from_bytes", false, MKProof, |b| MKProof::from_bytes(b), |x| canon(x)));
    v.push(bytes_entry!("common::MKMapProof<BlockRange>::from_bytes", false, MKMapProof<BlockRange>, |b| MKMapProof::<BlockRange>::from_bytes(b), |x| canon(x)));
    // decode followed by the proof's own verify(): what a client does next with an untrusted proof.
    // Not a decoder: diagnostic only (reported to the owners of C09/C11, never a C05 violation).
    v.push(bytes_entry!(
        "diag::MKProof::from_bytes+verify",
        true,
        bool,
        |b| MKProof::from_bytes(b).map(|p| p.verify().is_ok()),
        |x| format!("{x}")
    ));
    v.push(bytes_entry!(
        "diag::MKMapProof<BlockRange>::from_bytes+verify",
        true,
        bool,
        |b| MKMapProof::<BlockRange>::from_bytes(b).map(|p| p.verify().is_ok()),
        |x| format!("{x}")
    ));
    v.push(bytes_entry!("common::SignedEntityType::try_from_bytes", false, SignedEntityType, |b| <SignedEntityType as TryFromBytes>::try_from_bytes(b), |x| canon(x)));
    v.push(bytes_entry!(
        "common::RegisterSignatureMessageDmq::try_from_bytes",
        false,
        RegisterSignatureMessageDmq,
        |b| RegisterSignatureMessageDmq::try_from_bytes_vec(b),
        |x| format!("{:#?}", x)
    ));
    v.push(bytes_entry!(
        "common::ProtocolKey<ed25519 Signature>::from_bytes",
        false,
        GenesisEd25519Signature,
        |b| GenesisEd25519Signature::from_bytes(b),
        |x| canon(&**x)
    ));
    v.push(bytes_entry!(
        "common::ProtocolKey<ed25519 VerifyingKey>::from_bytes",
        false,
        GenesisEd25519VerificationKey,
        |b| GenesisEd25519VerificationKey::from_bytes(b),
        |x| canon(&**x)
    ));
    v.push(bytes_entry!("common::ProtocolMultiSignature::from_bytes", false, ProtocolMultiSignature, |b| ProtocolMultiSignature::from_bytes(b), |x| canon(&**x)));
    // ---- ProtocolKey<T> string doors -------------------------------------------------------
    key_entries!(v, "common::ProtocolSignerVerificationKeyForConcatenation", ProtocolSignerVerificationKeyForConcatenation);
    key_entries!(v, "common::ProtocolSignerVerificationKeySignatureForConcatenation(Sum6KesSig)", ProtocolSignerVerificationKeySignatureForConcatenation);
    key_entries!(v, "common::ProtocolSingleSignature", ProtocolSingleSignature);
    key_entries!(v, "common::ProtocolMultiSignature", ProtocolMultiSignature);
    key_entries!(v, "common::ProtocolOpCert", ProtocolOpCert);
    key_entries!(v, "common::ProtocolAggregateVerificationKeyForConcatenation", ProtocolAggregateVerificationKeyForConcatenation);
    key_entries!(v, "common::ProtocolKey<MKProof>", ProtocolKey<MKProof>);
    key_entries!(v, "common::ProtocolGenesisSignature(ed25519)", GenesisEd25519Signature);
    key_entries!(v, "common::ProtocolGenesisVerificationKey(ed25519)", GenesisEd25519VerificationKey);
    v.push(str_entry!("common::ProtocolAncillaryProverData::try_from(&str)", Form::HexStr, ProtocolAncillaryProverData, |s: &str| ProtocolAncillaryProverData::try_from(s), |_k| String::new()));
    v.push(str_entry!("common::ProtocolAncillaryVerifierData::try_from(&str)", Form::HexStr, ProtocolAncillaryVerifierData, |s: &str| ProtocolAncillaryVerifierData::try_from(s), |_k| String::new()));
    // MKMapProof<BlockRange> has no codec: only the two explicit doors
    v.push(str_entry!("common::ProtocolMkProof::from_bytes_hex", Form::HexStr, ProtocolMkProof, |s: &str| ProtocolMkProof::from_bytes_hex(s), |k: &ProtocolMkProof| canon(&**k)));
    v.push(str_entry!("common::ProtocolMkProof::from_json_hex", Form::HexStr, ProtocolMkProof, |s: &str| ProtocolMkProof::from_json_hex(s), |k: &ProtocolMkProof| canon(&**k)));
    // ---- JSON documents ----------------------------------------------------------------------
    v.push(str_entry!(
        "common::CertificateMessage::deserialize+Certificate::try_from",
        Form::Json,
        Certificate,
        |s: &str| -> anyhow::Result<Certificate> { Certificate::try_from(serde_json::from_str::<CertificateMessage>(s)?) },
        |c: &Certificate| format!("{:#?}", c)
    ));
    v.push(str_entry!(
        "common::CardanoTransactionsProofsMessage::deserialize+CardanoTransactionsSetProof::try_from",
        Form::Json,
        Vec<CardanoTransactionsSetProof>,
        |s: &str| -> anyhow::Result<Vec<CardanoTransactionsSetProof>> {
            let m = serde_json::from_str::<CardanoTransactionsProofsMessage>(s)?;
            m.certified_transactions.into_iter().map(CardanoTransactionsSetProof::try_from).collect()
        },
        |c: &Vec<CardanoTransactionsSetProof>| format!("{:?}", c)
    ));
    v.push(str_entry!(
        "common::CardanoTransactionsProofsV2Message::deserialize+MkSetProof::try_from",
        Form::Json,
        Option<MkSetProof<CardanoTransaction>>,
        |s: &str| -> anyhow::Result<Option<MkSetProof<CardanoTransaction>>> {
            let m = serde_json::from_str::<CardanoTransactionsProofsV2Message>(s)?;
            m.certified_transactions.map(MkSetProof::<CardanoTransaction>::try_from).transpose()
        },
        |c: &Option<MkSetProof<CardanoTransaction>>| format!("{:?}", c)
    ));
    v.push(str_entry!(
        "common::CardanoBlocksProofsMessage::deserialize+MkSetProof::try_from",
        Form::Json,
        Option<MkSetProof<CardanoBlock>>,
        |s: &str| -> anyhow::Result<Option<MkSetProof<CardanoBlock>>> {
            let m = serde_json::from_str::<CardanoBlocksProofsMessage>(s)?;
            m.certified_blocks.map(MkSetProof::<CardanoBlock>::try_from).transpose()
        },
        |c: &Option<MkSetProof<CardanoBlock>>| format!("{:?}", c)
    ));
    v.push(str_entry!(
        "common::RegisterSignatureMessageHttp::deserialize+adapter",
        Form::Json,
        SingleSignatureEntity,
        |s: &str| -> anyhow::Result<SingleSignatureEntity> { adapt_register_signature(serde_json::from_str::<RegisterSignatureMessageHttp>(s)?) },
        |c: &SingleSignatureEntity| canon(c)
    ));
    v.push(str_entry!(
        "common::RegisterSignerMessage::deserialize+adapter",
        Form::Json,
        Signer,
        |s: &str| -> anyhow::Result<Signer> { adapt_register_signer(serde_json::from_str::<RegisterSignerMessage>(s)?) },
        |c: &Signer| canon(c)
    ));
    v.push(str_entry!(
        "common::MithrilStakeDistributionMessage::deserialize+SignerWithStake::try_into",
        Form::Json,
        Vec<SignerWithStake>,
        |s: &str| -> anyhow::Result<Vec<SignerWithStake>> {
            let m = serde_json::from_str::<MithrilStakeDistributionMessage>(s)?;
            SignerWithStakeMessagePart::try_into_signers(m.signers_with_stake)
        },
        |c: &Vec<SignerWithStake>| canon(c)
    ));
    v
}

pub fn index_of(entries: &[Entry], name: &str) -> Option<usize> {
    entries.iter().position(|e| e.name == name)
}
