//! Honest values for C05 and their encodings in every form: current (CBOR v1 / raw) bytes,
//! legacy byte layouts (harness-side encoder written from what the legacy *decoders* read - the
//! library has no legacy encoder any more), bytes-hex, json-hex.
use mithril_stm::*;
use rand_chacha::ChaCha20Rng;
use rand_core::RngCore;
use serde::{Deserialize, Serialize};
use serde_json::Value;

pub type D = MithrilMembershipDigest;

// ---------------------------------------------------------------------------------------------
// byte builder that remembers where the 8-byte big-endian length / count fields are

#[derive(Clone, Debug, Default)]
pub struct Enc {
    pub bytes: Vec<u8>,
    /// (offset, name) of every be64 length / count field
    pub len_fields: Vec<(usize, &'static str)>,
}

impl Enc {
    pub fn new() -> Enc {
        Enc::default()
    }
    pub fn raw(&mut self, b: &[u8]) -> &mut Self {
        self.bytes.extend_from_slice(b);
        self
    }
    pub fn be(&mut self, n: u64) -> &mut Self {
        self.raw(&n.to_be_bytes())
    }
    pub fn len_field(&mut self, name: &'static str, n: u64) -> &mut Self {
        self.len_fields.push((self.bytes.len(), name));
        self.be(n)
    }
    pub fn nested(&mut self, e: &Enc) -> &mut Self {
        let off = self.bytes.len();
        for (o, n) in &e.len_fields {
            self.len_fields.push((off + o, n));
        }
        self.raw(&e.bytes)
    }
}

#[derive(Clone, Debug)]
pub struct RawSig {
    pub sigma: Vec<u8>,
    pub indexes: Vec<u64>,
    pub signer_index: u64,
    pub vk: Vec<u8>,
    pub stake: u64,
}

#[derive(Clone, Debug)]
pub struct RawAgg {
    pub sigs: Vec<RawSig>,
    pub path_values: Vec<Vec<u8>>,
    pub path_indices: Vec<u64>,
}

pub fn bytes_of(v: &Value) -> Vec<u8> {
    v.as_array().map(|a| a.iter().map(|x| x.as_u64().unwrap_or(0) as u8).collect()).unwrap_or_default()
}

pub fn parse_agg(j: &Value) -> Option<RawAgg> {
    let mut sigs = vec![];
    for e in j.get("signatures")?.as_array()? {
        let pair = e.as_array()?;
        let s = pair.first()?;
        let r = pair.get(1)?.as_array()?;
        sigs.push(RawSig {
            sigma: bytes_of(s.get("sigma")?),
            indexes: s.get("indexes")?.as_array()?.iter().map(|x| x.as_u64().unwrap_or(u64::MAX)).collect(),
            signer_index: s.get("signer_index")?.as_u64()?,
            vk: bytes_of(r.first()?),
            stake: r.get(1)?.as_u64()?,
        });
    }
    let bp = j.get("batch_proof")?;
    Some(RawAgg {
        sigs,
        path_values: bp.get("values")?.as_array()?.iter().map(bytes_of).collect(),
        path_indices: bp.get("indices")?.as_array()?.iter().map(|x| x.as_u64().unwrap_or(u64::MAX)).collect(),
    })
}

pub mod legacy {
    use super::*;

    pub fn single_signature(s: &RawSig) -> Enc {
        let mut e = Enc::new();
        e.len_field("SingleSignature.nr_indexes", s.indexes.len() as u64);
        for i in &s.indexes {
            e.be(*i);
        }
        e.raw(&s.sigma).be(s.signer_index);
        e
    }
    pub fn reg_party(s: &RawSig) -> Enc {
        let mut e = Enc::new();
        e.raw(&s.vk).be(s.stake);
        e
    }
    pub fn sig_with_party(s: &RawSig) -> Enc {
        let rp = reg_party(s);
        let sg = single_signature(s);
        let mut e = Enc::new();
        e.len_field("SingleSignatureWithRegisteredParty.size_reg_party", rp.bytes.len() as u64).nested(&rp);
        e.len_field("SingleSignatureWithRegisteredParty.size_sig", sg.bytes.len() as u64).nested(&sg);
        e
    }
    pub fn batch_path(values: &[Vec<u8>], indices: &[u64]) -> Enc {
        let mut e = Enc::new();
        e.len_field("MerkleBatchPath.len_values", values.len() as u64);
        e.len_field("MerkleBatchPath.len_indices", indices.len() as u64);
        for v in values {
            e.raw(v);
        }
        for i in indices {
            e.be(*i);
        }
        e
    }
    pub fn concatenation_proof(a: &RawAgg) -> Enc {
        let mut e = Enc::new();
        e.len_field("ConcatenationProof.total_sigs", a.sigs.len() as u64);
        for s in &a.sigs {
            let sp = sig_with_party(s);
            e.len_field("ConcatenationProof.sig_reg_size", sp.bytes.len() as u64).nested(&sp);
        }
        e.nested(&batch_path(&a.path_values, &a.path_indices));
        e
    }
    pub fn aggregate(a: &RawAgg) -> Enc {
        let mut e = Enc::new();
        e.raw(&[0u8]).nested(&concatenation_proof(a));
        e
    }
    pub fn avk(nr_leaves: u64, root: &[u8], total_stake: u64) -> Enc {
        let mut e = Enc::new();
        e.len_field("MerkleTreeBatchCommitment.nr_leaves", nr_leaves).raw(root).be(total_stake);
        e
    }
    pub fn batch_commitment(nr_leaves: u64, root: &[u8]) -> Enc {
        let mut e = Enc::new();
        e.len_field("MerkleTreeBatchCommitment.nr_leaves", nr_leaves).raw(root);
        e
    }
    pub fn parameters(m: u64, k: u64, phi: f64) -> Enc {
        let mut e = Enc::new();
        e.be(m).be(k).raw(&phi.to_be_bytes());
        e
    }
    pub fn initializer(stake: u64, m: u64, k: u64, phi: f64, sk: &[u8], vkpop: &[u8]) -> Enc {
        let mut e = Enc::new();
        e.be(stake).nested(&parameters(m, k, phi)).raw(sk).raw(vkpop);
        e
    }
    pub fn merkle_tree(n: u64, nodes: &[Vec<u8>]) -> Enc {
        let mut e = Enc::new();
        e.len_field("MerkleTree.n", n);
        for x in nodes {
            e.raw(x);
        }
        e
    }
}

// ---------------------------------------------------------------------------------------------
// harness-side mirrors of the CBOR envelopes (field names as in the repository's private structs)

#[derive(Serialize, Deserialize, Clone, Debug)]
pub struct AggEnv {
    pub signature_type: u8,
    pub proof_bytes: Vec<u8>,
}
#[derive(Serialize, Deserialize, Clone, Debug)]
pub struct ConcatEnv {
    pub signature_bytes: Vec<Vec<u8>>,
    pub batch_proof_bytes: Vec<u8>,
}
#[derive(Serialize, Deserialize, Clone, Debug)]
pub struct SigRegEnv {
    pub signature_bytes: Vec<u8>,
    pub registration_entry_bytes: Vec<u8>,
}
#[derive(Serialize, Deserialize, Clone, Debug)]
pub struct RegEntryEnv {
    pub verification_key_bytes: Vec<u8>,
    pub stake: u64,
}

pub fn cbor_v1<T: Serialize>(v: &T) -> Vec<u8> {
    let mut out = vec![1u8];
    ciborium::ser::into_writer(v, &mut out).expect("cbor encode");
    out
}
pub fn from_cbor_v1<T: for<'a> Deserialize<'a>>(b: &[u8]) -> Option<T> {
    if b.first() != Some(&1) {
        return None;
    }
    ciborium::de::from_reader(&b[1..]).ok()
}

// ---------------------------------------------------------------------------------------------

pub struct StmWorld {
    pub params: Parameters,
    pub initializers: Vec<Initializer>,
    pub vkpops: Vec<VerificationKeyProofOfPossessionForConcatenation>,
    #[allow(dead_code)]
    pub sigs: Vec<SingleSignature>,
    pub agg: AggregateSignature<D>,
    pub avk: AggregateVerificationKeyForConcatenation<D>,
    pub raw: RawAgg,
    /// honest current-format bytes of each SingleSignatureWithRegisteredParty of the aggregate
    pub sig_reg_bytes: Vec<Vec<u8>>,
    pub batch_path_bytes: Vec<u8>,
    pub avk_root: Vec<u8>,
    pub avk_nr_leaves: u64,
    pub avk_total_stake: u64,
}

pub fn no_ancillary() -> AncillaryProofInput {
    AncillaryProofInput::new(None, AncillaryGenesisData::new())
}

impl StmWorld {
    pub fn build(params: Parameters, stakes: &[u64], msg: &[u8], rng: &mut ChaCha20Rng) -> Option<StmWorld> {
        let mut kr = KeyRegistration::initialize();
        let mut inits = vec![];
        for &s in stakes {
            let p = Initializer::new(params, s, rng);
            let e = RegistrationEntry::new(p.get_verification_key_proof_of_possession_for_concatenation(), s).ok()?;
            kr.register_by_entry(&e).ok()?;
            inits.push(p);
        }
        let closed = kr.close_registration(&params).ok()?;
        let vkpops = inits.iter().map(|p| p.get_verification_key_proof_of_possession_for_concatenation()).collect();
        let mut signers: Vec<Signer<D>> = vec![];
        for p in &inits {
            signers.push(p.clone().try_create_signer(&closed).ok()?);
        }
        let clerk = Clerk::new_clerk_from_closed_key_registration(&params, &closed);
        let avk_full = clerk.compute_aggregate_verification_key();
        let avk = avk_full.to_concatenation_aggregate_verification_key().clone();
        let sigs: Vec<SingleSignature> = signers.iter().filter_map(|s| s.create_single_signature(msg).ok()).collect();
        let (agg, _) = clerk.aggregate_signatures_with_type(&sigs, msg, AggregateSignatureType::Concatenation, no_ancillary()).ok()?;
        let raw = parse_agg(&serde_json::to_value(&agg).ok()?)?;
        let env: AggEnv = from_cbor_v1(&agg.to_bytes().ok()?)?;
        let cenv: ConcatEnv = from_cbor_v1(&env.proof_bytes)?;
        let j = serde_json::to_value(&avk).ok()?;
        Some(StmWorld {
            params,
            initializers: inits,
            vkpops,
            sigs,
            agg,
            raw,
            sig_reg_bytes: cenv.signature_bytes.clone(),
            batch_path_bytes: cenv.batch_proof_bytes.clone(),
            avk_root: bytes_of(&j["mt_commitment"]["root"]),
            avk_nr_leaves: j["mt_commitment"]["nr_leaves"].as_u64()?,
            avk_total_stake: j["total_stake"].as_u64()?,
            avk,
        })
    }
}

/// small worlds with several signatures in the aggregate
pub fn random_world(rng: &mut ChaCha20Rng, variant: u64) -> StmWorld {
    loop {
        let (n, m, k, phi): (usize, u64, u64, f64) = match variant % 4 {
            0 => (3, 10, 3, 1.0),
            1 => (2, 16, 4, 0.9),
            2 => (5, 20, 5, 0.8),
            _ => (1, 6, 2, 1.0),
        };
        let stakes: Vec<u64> = (0..n).map(|i| 1 + (rng.next_u64() % 1000) + i as u64).collect();
        let mut msg = vec![0u8; 16 + (rng.next_u32() % 48) as usize];
        rng.fill_bytes(&mut msg);
        if let Some(w) = StmWorld::build(Parameters { m, k, phi_f: phi }, &stakes, &msg, rng) {
            if !w.raw.sigs.is_empty() {
                return w;
            }
        }
    }
}
