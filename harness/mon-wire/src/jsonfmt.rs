//! JSON re-serialiser: renders a serde_json::Value as a *different text of the same document*
//! (object keys in another order, whitespace, other spellings of the same float, escaped strings).
//! It is a writer of the harness' own; the parser under test is the serde_json + Deserialize impls
//! the repository uses.
use rand_chacha::ChaCha20Rng;
use serde_json::Value;
use vcore::rnd;

#[derive(Clone, Copy, Debug)]
pub struct Style {
    pub shuffle: bool,
    /// 0 none, 1 light, 2 heavy
    pub ws: u8,
    /// see `FLOAT_STYLES`
    pub float: u8,
    /// probability (in 1/16) of spelling a character as \uXXXX
    pub escape: u8,
}

pub const FLOAT_STYLES: [&str; 7] =
    ["shortest", "exp", "exp17", "EXP+", "trailing-zeros", "fixed25", "exp-pad"];

impl Style {
    pub fn plain() -> Style {
        Style { shuffle: false, ws: 0, float: 0, escape: 0 }
    }
    pub fn random(rng: &mut ChaCha20Rng) -> Style {
        Style {
            shuffle: rnd::chance(rng, 3, 4),
            ws: rnd::below(rng, 3) as u8,
            float: rnd::below(rng, FLOAT_STYLES.len() as u64) as u8,
            escape: *rnd::pick(rng, &[0u8, 0, 1, 4, 16]),
        }
    }
    pub fn label(&self) -> String {
        format!(
            "shuffle={} ws={} float={} escape={}/16",
            self.shuffle, self.ws, FLOAT_STYLES[self.float as usize], self.escape
        )
    }
}

fn ws(out: &mut String, rng: &mut ChaCha20Rng, level: u8) {
    match level {
        0 => {}
        1 => {
            if rnd::chance(rng, 1, 2) {
                out.push(' ');
            }
        }
        _ => {
            for _ in 0..rnd::below(rng, 4) {
                let w: &str = *rnd::pick(rng, &[" ", "\n", "\t", "\r\n", "  "]);
                out.push_str(w);
            }
        }
    }
}

pub fn float_text(x: f64, style: u8) -> String {
    debug_assert!(x.is_finite());
    match style {
        1 => format!("{x:e}"),
        2 => format!("{x:.16e}"),
        3 => {
            // 6.5E-1, 1.0E+0 ...
            let s = format!("{x:E}");
            match s.find('E') {
                Some(i) if !s[i + 1..].starts_with('-') => format!("{}E+{}", &s[..i], &s[i + 1..]),
                _ => s,
            }
        }
        4 => {
            let s = serde_json::to_string(&x).unwrap();
            if s.contains('e') || s.contains('E') {
                s
            } else if s.contains('.') {
                format!("{s}000")
            } else {
                format!("{s}.000")
            }
        }
        5 => {
            if x == 0.0 || (x.abs() < 1e15 && x.abs() >= 1e-8) {
                format!("{x:.25}")
            } else {
                format!("{x:e}")
            }
        }
        6 => {
            let s = format!("{x:e}");
            match s.find('e') {
                Some(i) => {
                    let (m, e) = (&s[..i], &s[i + 1..]);
                    if let Some(d) = e.strip_prefix('-') {
                        format!("{m}e-0{d}")
                    } else {
                        format!("{m}e0{e}")
                    }
                }
                None => s,
            }
        }
        _ => serde_json::to_string(&x).unwrap(),
    }
}

fn string_text(s: &str, rng: &mut ChaCha20Rng, escape: u8, out: &mut String) {
    out.push('"');
    for c in s.chars() {
        let forced = matches!(c, '"' | '\\') || (c as u32) < 0x20;
        let want = forced || (escape > 0 && rnd::below(rng, 16) < escape as u64);
        if !want {
            out.push(c);
            continue;
        }
        match c {
            '"' if rnd::chance(rng, 1, 2) => out.push_str("\\\""),
            '\\' if rnd::chance(rng, 1, 2) => out.push_str("\\\\"),
            '\n' if rnd::chance(rng, 1, 2) => out.push_str("\\n"),
            '\t' if rnd::chance(rng, 1, 2) => out.push_str("\\t"),
            '/' if rnd::chance(rng, 1, 2) => out.push_str("\\/"),
            _ => {
                let mut buf = [0u16; 2];
                for u in c.encode_utf16(&mut buf) {
                    if rnd::chance(rng, 1, 2) {
                        out.push_str(&format!("\\u{:04x}", u));
                    } else {
                        out.push_str(&format!("\\u{:04X}", u));
                    }
                }
            }
        }
    }
    out.push('"');
}

pub fn render(v: &Value, rng: &mut ChaCha20Rng, st: &Style) -> String {
    let mut out = String::new();
    ws(&mut out, rng, st.ws);
    render_into(v, rng, st, &mut out);
    ws(&mut out, rng, st.ws);
    out
}

fn render_into(v: &Value, rng: &mut ChaCha20Rng, st: &Style, out: &mut String) {
    match v {
        Value::Null => out.push_str("null"),
        Value::Bool(b) => out.push_str(if *b { "true" } else { "false" }),
        Value::Number(n) => {
            if n.is_f64() {
                out.push_str(&float_text(n.as_f64().unwrap(), st.float));
            } else {
                out.push_str(&n.to_string());
            }
        }
        Value::String(s) => string_text(s, rng, st.escape, out),
        Value::Array(a) => {
            out.push('[');
            for (i, x) in a.iter().enumerate() {
                if i > 0 {
                    out.push(',');
                }
                ws(out, rng, st.ws);
                render_into(x, rng, st, out);
                ws(out, rng, st.ws);
            }
            out.push(']');
        }
        Value::Object(m) => {
            let mut keys: Vec<&String> = m.keys().collect();
            if st.shuffle {
                rnd::shuffle(rng, &mut keys);
            }
            out.push('{');
            for (i, k) in keys.iter().enumerate() {
                if i > 0 {
                    out.push(',');
                }
                ws(out, rng, st.ws);
                string_text(k, rng, st.escape.min(1), out);
                ws(out, rng, st.ws);
                out.push(':');
                ws(out, rng, st.ws);
                render_into(&m[*k], rng, st, out);
                ws(out, rng, st.ws);
            }
            out.push('}');
        }
    }
}
