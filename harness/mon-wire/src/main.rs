mod c04;
mod certgen;
mod jsonfmt;
mod util;

use vcore::{Monitor, Tier};

#[global_allocator]
static A: vcore::alloc::Counting = vcore::alloc::Counting;

fn main() {
    let args = vcore::parse_args();
    vcore::install_panic_hook();
    let threads = vcore::default_threads();
    match args.prop.as_str() {
        "C04" => {
            let mut mon = Monitor::new(&args);
            let Some(shared) = c04::prepare(&mut mon) else {
                mon.finish(c04::RULE, &c04::ASSUMPTIONS, 1);
            };
            let (shards, per) = match args.tier {
                Tier::Quick => (16, 6),
                Tier::Thorough => (64, 60),
            };
            vcore::run_shards(&mut mon, shards, threads, |s, m| {
                if let Err(p) = vcore::catch(|| c04::run_shard(s, m, &shared, per)) {
                    m.inconclusive(&format!("harness panic in shard {s}: {p}"));
                }
            });
            mon.finish(c04::RULE, &c04::ASSUMPTIONS, 500);
        }
        other => {
            eprintln!("mon-wire: unknown property {other}");
            std::process::exit(2);
        }
    }
}
