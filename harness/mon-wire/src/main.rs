fn main() {
    println!("skeleton");
}
