//! mon-wire: C04 (certificates are tamper-evident and survive the wire) and C05 (decoders never
//! crash and round-trip honest values).
//!
//!   mon-wire C04|C05 [--tier quick|thorough] [--replay FILE]
//!   mon-wire C05-child ... / C05-one ...     (internal: child processes of the C05 monitor)
mod alloc2;
mod c04;
mod c05;
mod certgen;
mod corpus;
mod entry;
mod honest;
mod jsonfmt;
mod miri;
mod mutate;
mod util;

use vcore::{Monitor, Tier};

#[global_allocator]
static A: alloc2::Tracing = alloc2::Tracing;

fn main() {
    let raw: Vec<String> = std::env::args().collect();
    match raw.get(1).map(|s| s.as_str()) {
        Some("C05-child") => c05::child_main(&raw[2..]),
        Some("C05-one") => c05::one_main(&raw[2..]),
        Some("C05-miri") => miri::miri_main(&raw[2..]),
        Some("C04-time-verify") => c04::time_verify_main(&raw[2..]),
        _ => {}
    }
    let args = vcore::parse_args();
    vcore::install_panic_hook();
    let threads = vcore::default_threads();
    match args.prop.as_str() {
        "C04" => {
            if let Some(f) = &args.replay {
                c04::replay(&args, f);
            }
            let mut mon = Monitor::new(&args);
            let Some(shared) = c04::prepare(&mut mon) else {
                mon.finish(c04::RULE, &c04::ASSUMPTIONS, 1);
            };
            let (shards, per) = match args.tier {
                Tier::Quick => (16, 16),
                Tier::Thorough => (64, 100),
            };
            vcore::run_shards(&mut mon, shards, threads, |s, m| {
                if let Err(p) = vcore::catch(|| c04::run_shard(s, m, &shared, per)) {
                    m.inconclusive(&format!("harness panic in shard {s}: {p}"));
                }
            });
            mon.finish(c04::RULE, &c04::ASSUMPTIONS, 500);
        }
        "C05" => {
            if let Some(f) = &args.replay {
                c05::replay(&args, f);
            }
            c05::run(&args);
        }
        other => {
            eprintln!("mon-wire: unknown property {other}");
            std::process::exit(2);
        }
    }
}
