//! `mon-wire C05-miri [n]`: the pure-Rust decoders (bincode Merkle proofs, Merkle path / commitment
//! legacy parsers, codec helpers, signed entity type) on a small structure-aware corpus inside ONE
//! process, meant to be run under Miri:
//!
//!   cd /verif/harness && MIRIFLAGS=-Zmiri-disable-isolation \
//!     cargo +nightly miri run --offline -p mon-wire -- C05-miri 300
//!
//! Nothing here reaches blst (FFI): no STM world, no signatures. Miri itself is the oracle
//! (undefined behaviour aborts the run with a report); panics are also counted.
use mithril_common::crypto_helper::{MKProof, MKTree, MKTreeNode, MKTreeStoreInMemory, ProtocolMkProof, TryToBytes};
use mithril_common::entities::{BlockNumber, Epoch, SignedEntityType};
use mithril_common::messages::{CardanoTransactionMessagePart, MkSetProofMessagePart};
use mithril_common::test::double::Dummy;
use rand_chacha::ChaCha20Rng;
use rand_core::SeedableRng;
use vcore::rnd;

use crate::c05;
use crate::entry::{self, Entry};
use crate::honest::{legacy, Enc};
use crate::mutate::{self, Mutant};

pub fn miri_main(argv: &[String]) -> ! {
    let n: usize = argv.first().and_then(|s| s.parse().ok()).unwrap_or(300);
    c05::install_hook();
    let entries = entry::entries();
    let e = |name: &str| -> &Entry { &entries[entry::index_of(&entries, name).expect("entry")] };
    let mut rng = ChaCha20Rng::from_seed(vcore::derive_seed(0, "C05", "miri", 0));
    // (entry, label, honest bytes, structure-aware mutants)
    let mut work: Vec<(&Entry, String, Vec<u8>)> = vec![];
    let mut add = |en: &'static str, label: &str, honest: Vec<u8>, muts: Vec<Mutant>, rng: &mut ChaCha20Rng| {
        work.push((e(en), format!("{label} | honest"), honest.clone()));
        for m in muts {
            work.push((e(en), format!("{label} | {}", m.class), m.bytes));
        }
        for _ in 0..12 {
            let m = mutate::havoc(&honest, &honest, rng);
            work.push((e(en), format!("{label} | {}", m.class), m.bytes));
        }
    };
    // MKProof
    let leaves: Vec<MKTreeNode> = (0..5).map(|i| MKTreeNode::from(format!("leaf-{i}").as_str())).collect();
    let proof: MKProof = MKTree::<MKTreeStoreInMemory>::new(&leaves).unwrap().compute_proof(&leaves[1..3]).unwrap();
    let pb = proof.to_bytes().unwrap();
    let mut m = mutate::bincode_len_mutants(&pb, 10, &mut rng);
    m.extend(mutate::truncations(&pb, &[], &mut rng, 25));
    add("common::MKProof::from_bytes", "MKProof/bincode", pb, m, &mut rng);
    // MKMapProof
    let mp = ProtocolMkProof::from_bytes_hex(&MkSetProofMessagePart::<CardanoTransactionMessagePart>::dummy().proof).unwrap();
    let mb = mp.to_bytes_vec().unwrap();
    let mut m = mutate::bincode_len_mutants(&mb, 10, &mut rng);
    m.extend(mutate::truncations(&mb, &[], &mut rng, 25));
    m.extend(mutate::bincode_bombs(&[3, 50, 400]));
    add("common::MKMapProof<BlockRange>::from_bytes", "MKMapProof/bincode", mb, m, &mut rng);
    // signed entity type
    let sb = SignedEntityType::CardanoTransactions(Epoch(7), BlockNumber(1 << 40)).to_bytes_vec().unwrap();
    let m = mutate::bincode_len_mutants(&sb, 10, &mut rng);
    add("common::SignedEntityType::try_from_bytes", "SignedEntityType/bincode", sb, m, &mut rng);
    // STM: parameters (CBOR + legacy), Merkle batch path / commitment legacy parsers
    let p = mithril_stm::Parameters { m: 20973, k: 2422, phi_f: 0.2 };
    let pc = p.to_bytes().unwrap();
    let mut m = mutate::cbor_head_mutants(&pc, 8, &mut rng);
    m.extend(mutate::cbor_bombs(&[64, 300]));
    m.extend(mutate::first_byte_flips(&pc));
    add("stm::Parameters::from_bytes", "Parameters/cbor-v1", pc, m, &mut rng);
    let pl = legacy::parameters(p.m, p.k, p.phi_f).bytes;
    let m = mutate::truncations(&pl, &[], &mut rng, 30);
    add("stm::Parameters::from_bytes", "Parameters/legacy", pl, m, &mut rng);
    let values: Vec<Vec<u8>> = (0..3).map(|_| rnd::bytes(&mut rng, 32)).collect();
    let bp: Enc = legacy::batch_path(&values, &[0, 2, 5]);
    let mut m = mutate::legacy_len_mutants(&bp);
    m.extend(mutate::truncations(&bp.bytes, &[], &mut rng, 25));
    add("stm::verif_export::batch_path_from_bytes", "MerkleBatchPath/legacy", bp.bytes.clone(), m, &mut rng);
    let bc = legacy::batch_commitment(5, &rnd::bytes(&mut rng, 32));
    let m = mutate::legacy_len_mutants(&bc);
    add("stm::verif_export::batch_commitment_from_bytes", "MerkleTreeBatchCommitment/legacy", bc.bytes.clone(), m, &mut rng);

    work.truncate(n.max(1));
    let (mut value, mut error, mut panic) = (0u64, 0u64, 0u64);
    for (en, label, input) in &work {
        let r = c05::call(en, input, false);
        match r.obs {
            c05::Observed::Value(_) => value += 1,
            c05::Observed::Error => error += 1,
            c05::Observed::Panic(loc, msg) => {
                panic += 1;
                println!("PANIC {} @ {loc}: {msg} [{label}] input={}", en.name, hex::encode(input));
            }
        }
    }
    println!("[C05-miri] inputs={} value={value} error={error} panic={panic} (no undefined behaviour reported if this line is reached under Miri)", work.len());
    std::process::exit(if panic > 0 { 1 } else { 0 })
}
