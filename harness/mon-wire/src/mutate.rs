//! Structure-aware mutators for C05.
use rand_chacha::ChaCha20Rng;
use rand_core::RngCore;
use serde_json::Value;
use vcore::rnd;

use crate::honest::Enc;

#[derive(Clone, Debug)]
pub struct Mutant {
    /// mutator class (no per-run data)
    pub class: String,
    pub bytes: Vec<u8>,
    /// goes through every transport (the classes the statement names explicitly)
    pub key: bool,
}

fn m(class: impl Into<String>, bytes: Vec<u8>, key: bool) -> Mutant {
    Mutant { class: class.into(), bytes, key }
}

/// {0,1,len-1,len+1,2^16,2^31,2^32,2^38,2^56,2^62,2^63-1,2^63,2^64-16,2^64-9,2^64-8,2^64-1}
pub fn len_table(cur: u64) -> Vec<(&'static str, u64)> {
    let mut v = vec![
        ("0", 0u64),
        ("1", 1),
        ("len-1", cur.wrapping_sub(1)),
        ("len+1", cur.wrapping_add(1)),
        ("2^16", 1 << 16),
        ("2^31", 1 << 31),
        ("2^32", 1 << 32),
        ("2^38", 1 << 38),
        ("2^56", 1 << 56),
        ("2^62", 1 << 62),
        ("2^63-1", (1 << 63) - 1),
        ("2^63", 1 << 63),
        ("2^63+1", (1 << 63) + 1),
        ("2^64-16", u64::MAX - 15),
        ("2^64-9", u64::MAX - 8),
        ("2^64-8", u64::MAX - 7),
        ("2^64-1", u64::MAX),
    ];
    v.retain(|(_, x)| *x != cur);
    v
}

/// every be64 length / count field of a legacy layout set to every table value
pub fn legacy_len_mutants(e: &Enc) -> Vec<Mutant> {
    let mut out = vec![];
    for (off, name) in &e.len_fields {
        let mut cur = [0u8; 8];
        cur.copy_from_slice(&e.bytes[*off..*off + 8]);
        let cur = u64::from_be_bytes(cur);
        for (tag, val) in len_table(cur) {
            let mut b = e.bytes.clone();
            b[*off..*off + 8].copy_from_slice(&val.to_be_bytes());
            out.push(m(format!("legacy length field {name} := {tag}"), b, true));
        }
    }
    out
}

/// truncation at every offset (small values) or at sampled offsets + every field boundary +-1
pub fn truncations(b: &[u8], boundaries: &[usize], rng: &mut ChaCha20Rng, max: usize) -> Vec<Mutant> {
    let mut cuts: Vec<usize> = vec![];
    if b.len() <= max {
        cuts.extend(0..b.len());
    } else {
        for &o in boundaries {
            for d in [-1i64, 0, 1, 7, 8, 9] {
                let p = o as i64 + d;
                if p >= 0 && (p as usize) < b.len() {
                    cuts.push(p as usize);
                }
            }
        }
        cuts.extend([0, 1, 2, 8, 9, b.len() - 1, b.len() - 2, b.len() - 8]);
        while cuts.len() < max {
            cuts.push(rnd::usize_below(rng, b.len()));
        }
        cuts.retain(|c| *c < b.len());
        cuts.sort();
        cuts.dedup();
    }
    cuts.into_iter().map(|c| m("truncation", b[..c].to_vec(), false)).collect()
}

pub fn first_byte_flips(b: &[u8]) -> Vec<Mutant> {
    let mut out = vec![];
    if b.is_empty() {
        return out;
    }
    for v in [0u8, 1, 2, 0x7f, 0x80, 0xff] {
        if b[0] != v {
            let mut x = b.to_vec();
            x[0] = v;
            out.push(m(format!("first byte := {v:#04x} (CBOR-v1 prefix / legacy switch)"), x, true));
        }
    }
    // prefix inserted / removed
    let mut x = vec![1u8];
    x.extend_from_slice(b);
    out.push(m("CBOR-v1 prefix prepended", x, true));
    out.push(m("first byte removed", b[1..].to_vec(), true));
    out
}

pub fn extensions(b: &[u8], rng: &mut ChaCha20Rng) -> Vec<Mutant> {
    let mut out = vec![];
    for n in [1usize, 8, 100] {
        let mut x = b.to_vec();
        x.extend(rnd::bytes(rng, n));
        out.push(m("trailing bytes appended", x, false));
    }
    let mut x = b.to_vec();
    x.extend_from_slice(b);
    out.push(m("value doubled", x, false));
    out
}

/// random byte-level edit (bit flips, inserts, deletions, splices)
pub fn havoc(b: &[u8], other: &[u8], rng: &mut ChaCha20Rng) -> Mutant {
    let mut x = b.to_vec();
    let n_ops = 1 + rnd::below(rng, 4);
    for _ in 0..n_ops {
        match rnd::below(rng, 9) {
            0 if !x.is_empty() => {
                let i = rnd::usize_below(rng, x.len());
                x[i] ^= 1 << rnd::below(rng, 8);
            }
            1 if !x.is_empty() => {
                let i = rnd::usize_below(rng, x.len());
                x[i] = *rnd::pick(rng, &[0u8, 1, 0x7f, 0x80, 0xff, 0x1b, 0x9f, 0xbf, 0x5f, 0xfb, 0xfc, 0xfd]);
            }
            2 => {
                let i = rnd::usize_below(rng, x.len() + 1);
                let n = 1 + rnd::usize_below(rng, 9);
                let ins = rnd::bytes(rng, n);
                x.splice(i..i, ins);
            }
            3 if x.len() > 1 => {
                let i = rnd::usize_below(rng, x.len());
                let n = 1 + rnd::usize_below(rng, (x.len() - i).min(16));
                x.drain(i..i + n);
            }
            4 if x.len() >= 8 => {
                // overwrite an aligned-looking 8 byte window with an interesting be64
                let i = rnd::usize_below(rng, x.len() - 7);
                let v = *rnd::pick(rng, &[0u64, 1, 1 << 31, 1 << 32, 1 << 38, 1 << 62, 1 << 63, u64::MAX, u64::MAX - 7]);
                x[i..i + 8].copy_from_slice(&v.to_be_bytes());
            }
            5 if !other.is_empty() && !x.is_empty() => {
                // splice: head of this, tail of the other
                let i = rnd::usize_below(rng, x.len());
                let j = rnd::usize_below(rng, other.len());
                x.truncate(i);
                x.extend_from_slice(&other[j..]);
            }
            6 if !x.is_empty() => {
                // duplicate a range
                let i = rnd::usize_below(rng, x.len());
                let n = 1 + rnd::usize_below(rng, (x.len() - i).min(64));
                let dup = x[i..i + n].to_vec();
                x.splice(i..i, dup);
            }
            7 if !x.is_empty() => {
                let c = rnd::usize_below(rng, x.len());
                x.truncate(c);
            }
            _ => {
                if !x.is_empty() {
                    let i = rnd::usize_below(rng, x.len());
                    x[i] = rng.next_u32() as u8;
                }
            }
        }
    }
    m("havoc (random byte edits / splice)", x, false)
}

// ---------------------------------------------------------------------------------------------
// CBOR

#[derive(Clone, Copy, Debug)]
pub struct Head {
    pub off: usize,
    pub major: u8,
    pub hl: usize,
    pub arg: u64,
}

fn scan_item(b: &[u8], pos: &mut usize, depth: usize, out: &mut Vec<Head>) -> Option<()> {
    if depth > 64 {
        return None;
    }
    let ib = *b.get(*pos)?;
    let (major, ai) = (ib >> 5, ib & 31);
    let (arg, hl): (u64, usize) = match ai {
        0..=23 => (ai as u64, 1),
        24 => (*b.get(*pos + 1)? as u64, 2),
        25 => (u16::from_be_bytes(b.get(*pos + 1..*pos + 3)?.try_into().ok()?) as u64, 3),
        26 => (u32::from_be_bytes(b.get(*pos + 1..*pos + 5)?.try_into().ok()?) as u64, 5),
        27 => (u64::from_be_bytes(b.get(*pos + 1..*pos + 9)?.try_into().ok()?), 9),
        _ => return None,
    };
    if matches!(major, 2..=5) {
        out.push(Head { off: *pos, major, hl, arg });
    }
    *pos += hl;
    match major {
        2 | 3 => {
            *pos = pos.checked_add(arg as usize)?;
            if *pos > b.len() {
                return None;
            }
        }
        4 => {
            for _ in 0..arg {
                scan_item(b, pos, depth + 1, out)?;
            }
        }
        5 => {
            for _ in 0..arg.checked_mul(2)? {
                scan_item(b, pos, depth + 1, out)?;
            }
        }
        6 => scan_item(b, pos, depth + 1, out)?,
        _ => {}
    }
    Some(())
}

/// heads of the length-bearing items (bytes, text, array, map) of a CBOR document
pub fn cbor_heads(b: &[u8]) -> Vec<Head> {
    let mut out = vec![];
    let mut pos = 0;
    let _ = scan_item(b, &mut pos, 0, &mut out);
    out
}

fn head_bytes(major: u8, arg: u64) -> Vec<u8> {
    let mut v = vec![(major << 5) | 27];
    v.extend_from_slice(&arg.to_be_bytes());
    v
}

/// `b` = 0x01 || CBOR. Length heads rewritten to huge / off-by-one / indefinite.
pub fn cbor_head_mutants(b: &[u8], max_heads: usize, rng: &mut ChaCha20Rng) -> Vec<Mutant> {
    let mut out = vec![];
    if b.first() != Some(&1) {
        return out;
    }
    let body = &b[1..];
    let mut heads = cbor_heads(body);
    if heads.len() > max_heads {
        rnd::shuffle(rng, &mut heads);
        heads.truncate(max_heads);
    }
    const NAMES: [&str; 4] = ["bytes", "text", "array", "map"];
    for h in heads {
        let kind = NAMES[(h.major - 2) as usize];
        let vals: [(&str, u64); 10] = [
            ("0", 0),
            ("len-1", h.arg.wrapping_sub(1)),
            ("len+1", h.arg.wrapping_add(1)),
            ("2^16", 1 << 16),
            ("2^31", 1 << 31),
            ("2^32", 1 << 32),
            ("2^38", 1 << 38),
            ("2^62", 1 << 62),
            ("2^63", 1 << 63),
            ("2^64-1", u64::MAX),
        ];
        for (tag, v) in vals {
            if v == h.arg {
                continue;
            }
            let mut x = vec![1u8];
            x.extend_from_slice(&body[..h.off]);
            x.extend(head_bytes(h.major, v));
            x.extend_from_slice(&body[h.off + h.hl..]);
            out.push(m(format!("CBOR {kind} length := {tag}"), x, true));
        }
        // indefinite length, with and without a break at the very end
        for brk in [false, true] {
            let mut x = vec![1u8];
            x.extend_from_slice(&body[..h.off]);
            x.push((h.major << 5) | 31);
            x.extend_from_slice(&body[h.off + h.hl..]);
            if brk {
                x.push(0xff);
            }
            out.push(m(format!("CBOR {kind} length := indefinite{}", if brk { " + break" } else { "" }), x, true));
        }
    }
    out
}

/// nesting bombs (with the CBOR-v1 prefix)
pub fn cbor_bombs(depths: &[usize]) -> Vec<Mutant> {
    let mut out = vec![];
    for &n in depths {
        let shapes: [(&str, &[u8], &[u8]); 6] = [
            ("array(1)", &[0x81], &[0x00]),
            ("indefinite array", &[0x9f], &[]),
            ("map(1) 0:", &[0xa1, 0x00], &[0x00]),
            ("tag", &[0xc1], &[0x00]),
            ("indefinite map key", &[0xbf], &[]),
            ("indefinite bytes", &[0x5f], &[]),
        ];
        for (name, unit, tail) in shapes {
            let mut x = vec![1u8];
            for _ in 0..n {
                x.extend_from_slice(unit);
            }
            x.extend_from_slice(tail);
            out.push(m(format!("CBOR nesting bomb {name} x{n}"), x, true));
        }
    }
    out
}

// ---------------------------------------------------------------------------------------------
// bincode (standard config: varint integers, 0xfd + u64 little endian for big values)

pub fn bincode_len_mutants(b: &[u8], max_positions: usize, rng: &mut ChaCha20Rng) -> Vec<Mutant> {
    let mut pos: Vec<usize> = (0..b.len()).collect();
    if pos.len() > max_positions {
        rnd::shuffle(rng, &mut pos);
        pos.truncate(max_positions);
        pos.sort();
    }
    let mut out = vec![];
    for p in pos {
        // only bytes that can be a small varint (a length / count / position)
        if b[p] > 250 {
            continue;
        }
        let vals: [(&str, u64); 6] = [("2^16", 1 << 16), ("2^32", 1 << 32), ("2^38", 1 << 38), ("2^62", 1 << 62), ("2^63", 1 << 63), ("2^64-1", u64::MAX)];
        for (tag, v) in vals {
            let mut x = b[..p].to_vec();
            x.push(253);
            x.extend_from_slice(&v.to_le_bytes());
            x.extend_from_slice(&b[p + 1..]);
            out.push(m(format!("bincode varint := {tag}"), x, true));
        }
        for (tag, d) in [("+1", 1i16), ("-1", -1)] {
            let nv = b[p] as i16 + d;
            if (0..=250).contains(&nv) {
                let mut x = b.to_vec();
                x[p] = nv as u8;
                out.push(m(format!("bincode varint {tag}"), x, false));
            }
        }
        // 0xfe = u128 marker, 0xff = reserved
        for v in [0xfeu8, 0xff, 0xfb, 0xfc] {
            let mut x = b.to_vec();
            x[p] = v;
            out.push(m("bincode varint marker byte", x, false));
        }
    }
    out
}

/// MKMapProof<BlockRange> nested `depth` times through sub_proofs (each level: empty master proof,
/// one sub proof keyed by the range 0..15)
pub fn mkmap_bomb(depth: usize) -> Vec<u8> {
    let mut x = Vec::with_capacity(depth * 7 + 5);
    for _ in 0..depth {
        x.extend_from_slice(&[0, 0, 0, 0, 1, 0, 15]);
    }
    x.extend_from_slice(&[0, 0, 0, 0, 0]);
    x
}

/// "comb" shaped nesting: every level holds TWO sub proofs, a shallow one (no sub proofs) and the
/// one that carries the next level; `shallow_first` puts the shallow sibling before the deep one
/// (a depth accounting that is disturbed by a completed sibling only shows with this shape)
pub fn mkmap_comb(depth: usize, shallow_first: bool) -> Vec<u8> {
    const MASTER: [u8; 4] = [0, 0, 0, 0];
    const KEY: [u8; 2] = [0, 15];
    const SHALLOW: [u8; 5] = [0, 0, 0, 0, 0];
    let mut x = Vec::with_capacity(depth * 14 + 5);
    for _ in 0..depth {
        x.extend_from_slice(&MASTER);
        x.push(2);
        if shallow_first {
            x.extend_from_slice(&KEY);
            x.extend_from_slice(&SHALLOW);
        }
        x.extend_from_slice(&KEY);
    }
    x.extend_from_slice(&SHALLOW);
    if !shallow_first {
        for _ in 0..depth {
            x.extend_from_slice(&KEY);
            x.extend_from_slice(&SHALLOW);
        }
    }
    x
}

pub fn bincode_bombs(depths: &[usize]) -> Vec<Mutant> {
    let mut out: Vec<Mutant> = depths.iter().map(|&n| m(format!("bincode MKMapProof sub_proofs nesting x{n}"), mkmap_bomb(n), true)).collect();
    for &n in depths {
        out.push(m(format!("bincode MKMapProof comb nesting (shallow sibling first) x{n}"), mkmap_comb(n, true), true));
        out.push(m(format!("bincode MKMapProof comb nesting (deep sibling first) x{n}"), mkmap_comb(n, false), true));
    }
    out
}

// ---------------------------------------------------------------------------------------------
// JSON text

const RAW: &str = "@@RAW-TOKEN@@";

fn count_nodes(v: &Value) -> usize {
    1 + match v {
        Value::Array(a) => a.iter().map(count_nodes).sum(),
        Value::Object(o) => o.values().map(count_nodes).sum(),
        _ => 0,
    }
}

/// replace the `n`-th node (pre-order) by `with`; returns the kind of the replaced node
fn replace_node(v: &mut Value, n: &mut usize, with: &Value) -> Option<&'static str> {
    if *n == 0 {
        let kind = match v {
            Value::Null => "null",
            Value::Bool(_) => "bool",
            Value::Number(_) => "number",
            Value::String(_) => "string",
            Value::Array(_) => "array",
            Value::Object(_) => "object",
        };
        *v = with.clone();
        *n = usize::MAX;
        return Some(kind);
    }
    *n -= 1;
    match v {
        Value::Array(a) => {
            for x in a.iter_mut() {
                if let Some(k) = replace_node(x, n, with) {
                    return Some(k);
                }
                if *n == usize::MAX {
                    return None;
                }
            }
            None
        }
        Value::Object(o) => {
            for (_, x) in o.iter_mut() {
                if let Some(k) = replace_node(x, n, with) {
                    return Some(k);
                }
                if *n == usize::MAX {
                    return None;
                }
            }
            None
        }
        _ => None,
    }
}

pub fn json_nest(open: &str, close: &str, n: usize, core: &str) -> String {
    let mut s = String::with_capacity(n * (open.len() + close.len()) + core.len());
    for _ in 0..n {
        s.push_str(open);
    }
    s.push_str(core);
    for _ in 0..n {
        s.push_str(close);
    }
    s
}

/// structure-aware mutants of a JSON text
pub fn json_text_mutants(text: &str, rng: &mut ChaCha20Rng, node_samples: usize, depths: &[usize]) -> Vec<Mutant> {
    let mut out = vec![];
    let Ok(val) = serde_json::from_str::<Value>(text) else { return out };
    let total = count_nodes(&val);
    // node replacement: wrong types, extreme numbers (raw tokens for what Value cannot hold)
    let replacements: Vec<(&str, Value, Option<&str>)> = vec![
        ("null", Value::Null, None),
        ("true", Value::Bool(true), None),
        ("0", serde_json::json!(0), None),
        ("-1", serde_json::json!(-1), None),
        ("256", serde_json::json!(256), None),
        ("u64::MAX", serde_json::json!(u64::MAX), None),
        ("2^64", Value::String(RAW.into()), Some("18446744073709551616")),
        ("1e400", Value::String(RAW.into()), Some("1e400")),
        ("-1e400", Value::String(RAW.into()), Some("-1e400")),
        ("1.5", serde_json::json!(1.5), None),
        ("1e2", Value::String(RAW.into()), Some("1e2")),
        ("300-digit integer", Value::String(RAW.into()), Some("RAW300")),
        ("NaN token", Value::String(RAW.into()), Some("NaN")),
        ("empty string", serde_json::json!(""), None),
        ("string '1'", serde_json::json!("1"), None),
        ("empty array", serde_json::json!([]), None),
        ("empty object", serde_json::json!({}), None),
        ("array nested x200", Value::String(RAW.into()), Some("NEST200")),
        ("10k zeros array", Value::String(RAW.into()), Some("ZEROS10K")),
        ("64 KiB string", Value::String(RAW.into()), Some("LONGSTR")),
        ("lone surrogate escape", Value::String(RAW.into()), Some("\"\\ud800\"")),
    ];
    let n_samples = node_samples.min(total);
    let mut picks: Vec<usize> = (0..total).collect();
    rnd::shuffle(rng, &mut picks);
    picks.truncate(n_samples);
    for node in picks {
        // a few replacements per node
        for _ in 0..3 {
            let (rname, rval, raw) = rnd::pick(rng, &replacements).clone();
            let mut v = val.clone();
            let mut n = node;
            let Some(kind) = replace_node(&mut v, &mut n, &rval) else { continue };
            let mut t = serde_json::to_string(&v).unwrap();
            if let Some(raw) = raw {
                let token: String = match raw {
                    "RAW300" => "9".repeat(300),
                    "NEST200" => json_nest("[", "]", 200, "0"),
                    "ZEROS10K" => format!("[{}0]", "0,".repeat(9_999)),
                    "LONGSTR" => format!("\"{}\"", "a".repeat(65_536)),
                    other => other.to_string(),
                };
                t = t.replacen(&format!("\"{RAW}\""), &token, 1);
            }
            out.push(m(format!("JSON {kind} node := {rname}"), t.into_bytes(), false));
        }
    }
    // object-level edits
    if let Value::Object(o) = &val {
        for k in o.keys() {
            let mut v = val.clone();
            v.as_object_mut().unwrap().remove(k);
            out.push(m("JSON field removed", serde_json::to_string(&v).unwrap().into_bytes(), false));
            // duplicate key: same key again first with another value (text level)
            let t = serde_json::to_string(&val).unwrap();
            let dup = format!("{{{}:null,{}", serde_json::to_string(k).unwrap(), &t[1..]);
            out.push(m("JSON duplicate key (null first)", dup.into_bytes(), false));
            let dup2 = format!("{},{}:0}}", &t[..t.len() - 1], serde_json::to_string(k).unwrap());
            out.push(m("JSON duplicate key (0 last)", dup2.into_bytes(), false));
        }
        let mut v = val.clone();
        v.as_object_mut().unwrap().insert("unknown_field".into(), serde_json::json!({"x":[1,2,3]}));
        out.push(m("JSON unknown field added", serde_json::to_string(&v).unwrap().into_bytes(), false));
    }
    // text-level anomalies
    let t = text.to_string();
    for n in [1usize, 2, t.len() / 2, t.len().saturating_sub(1)] {
        if n < t.len() && t.is_char_boundary(n) {
            out.push(m("JSON text truncated", t[..n].as_bytes().to_vec(), false));
        }
    }
    out.push(m("JSON trailing garbage", format!("{t} x").into_bytes(), false));
    out.push(m("JSON BOM prefix", format!("\u{feff}{t}").into_bytes(), false));
    out.push(m("JSON wrapped in array", format!("[{t}]").into_bytes(), false));
    out.push(m("JSON comment", format!("/*c*/{t}").into_bytes(), false));
    for &d in depths {
        out.push(m(format!("JSON deep nesting [ x{d}"), json_nest("[", "]", d, "0").into_bytes(), true));
        out.push(m(format!("JSON deep nesting {{\"a\": x{d}"), json_nest("{\"a\":", "}", d, "0").into_bytes(), true));
        out.push(m(format!("JSON unclosed [ x{d}"), "[".repeat(d).into_bytes(), true));
    }
    out
}

/// anomalies of the hex transport itself
pub fn hex_text_mutants(h: &str) -> Vec<Mutant> {
    let mut out = vec![];
    if !h.is_empty() {
        out.push(m("hex: odd length", h[..h.len() - 1].as_bytes().to_vec(), true));
        let mid = h.len() / 2;
        out.push(m("hex: non-hex character", format!("{}g{}", &h[..mid], &h[mid + 1..]).into_bytes(), true));
        out.push(m("hex: non-ASCII character", format!("{}\u{e9}{}", &h[..mid], &h[mid..]).into_bytes(), true));
        out.push(m("hex: NUL inside", format!("{}\0{}", &h[..mid], &h[mid..]).into_bytes(), false));
        // a multi-byte character straddling a byte offset at which text is commonly cut (error
        // messages quoting a prefix, fixed-size windows): 2-, 3- and 4-byte characters replacing the
        // hex digits just before the offset, every offset up to 40 and around powers of two
        let mut offsets: Vec<usize> = (1..=40).collect();
        for p in [48usize, 64, 80, 96, 100, 128, 200, 255, 256, 512, 1024, 4096] {
            offsets.extend([p - 1, p, p + 1]);
        }
        offsets.push(h.len().saturating_sub(1));
        for k in offsets {
            for (w, ch) in [(2usize, '\u{e9}'), (3, '\u{4e2d}'), (4, '\u{1f600}')] {
                // the character starts one byte before `k`, so that `k` falls inside it
                if k == 0 || k + w - 1 > h.len() || !h.is_ascii() {
                    continue;
                }
                let start = k - 1;
                out.push(m(format!("hex: {w}-byte character straddling a byte offset"), format!("{}{}{}", &h[..start], ch, &h[start + w..]).into_bytes(), true));
            }
        }
    }
    out.push(m("hex: upper case", h.to_uppercase().into_bytes(), false));
    out.push(m("hex: 0x prefix", format!("0x{h}").into_bytes(), false));
    out.push(m("hex: surrounding whitespace", format!(" \n{h}\t ").into_bytes(), false));
    out.push(m("hex: empty", vec![], true));
    out.push(m("hex: one character", b"0".to_vec(), true));
    out.push(m("hex: 256 KiB of zeros", vec![b'0'; 262_144], false));
    out
}
