//! small helpers shared by the C04 and C05 monitors
use rand_chacha::ChaCha20Rng;
use rand_core::RngCore;
use sha2::{Digest, Sha256};
use std::future::Future;
use std::task::{Context, Poll, Waker};
use vcore::rnd;

/// Drive a future that never really waits (in-memory retriever, tokio::sync locks without
/// contention) to completion without a runtime.
pub fn block_on<F: Future>(f: F) -> F::Output {
    let mut f = std::pin::pin!(f);
    let waker = Waker::noop();
    let mut cx = Context::from_waker(waker);
    loop {
        if let Poll::Ready(v) = f.as_mut().poll(&mut cx) {
            return v;
        }
        std::thread::yield_now();
    }
}

pub fn sha_hex(parts: &[&[u8]]) -> String {
    let mut h = Sha256::new();
    for p in parts {
        h.update((p.len() as u64).to_le_bytes());
        h.update(p);
    }
    hex::encode(h.finalize())
}

pub fn hash8(parts: &[&[u8]]) -> [u8; 8] {
    let mut h = Sha256::new();
    for p in parts {
        h.update((p.len() as u64).to_le_bytes());
        h.update(p);
    }
    let d = h.finalize();
    let mut o = [0u8; 8];
    o.copy_from_slice(&d[..8]);
    o
}

/// interesting u64 values: extremes, float-precision boundaries, small numbers
pub fn interesting_u64(rng: &mut ChaCha20Rng) -> u64 {
    const FIXED: [u64; 18] = [
        0,
        1,
        2,
        9,
        10,
        255,
        256,
        65535,
        (1 << 31) - 1,
        1 << 32,
        (1 << 53) - 1,
        1 << 53,
        (1 << 53) + 1,
        i64::MAX as u64,
        1 << 63,
        (1 << 63) + 1,
        u64::MAX - 1,
        u64::MAX,
    ];
    match rnd::below(rng, 4) {
        0 => *rnd::pick(rng, &FIXED),
        1 => rnd::below(rng, 1000),
        2 => rng.next_u64() >> rnd::below(rng, 64),
        _ => rng.next_u64(),
    }
}

/// arbitrary UTF-8 text: ASCII, control characters, quotes / backslashes, multi-byte, astral
pub fn arbitrary_string(rng: &mut ChaCha20Rng, max_chars: usize) -> String {
    let n = rnd::usize_below(rng, max_chars + 1);
    let mut s = String::new();
    for _ in 0..n {
        let c = match rnd::below(rng, 12) {
            0..=4 => (b'a' + rnd::below(rng, 26) as u8) as char,
            5 => (b'0' + rnd::below(rng, 10) as u8) as char,
            6 => *rnd::pick(rng, &['"', '\\', '/', '\'', ' ', '-', '_', '.', ':', '{', '}', '[', ']', ',']),
            7 => char::from_u32(rnd::below(rng, 0x20) as u32).unwrap(),
            8 => *rnd::pick(rng, &['é', 'ß', 'ø', 'Ж', 'λ', '中', '日', '\u{7f}', '\u{80}', '\u{a0}', '\u{2028}', '\u{feff}', '\u{ffff}']),
            9 => *rnd::pick(rng, &['😀', '🦀', '\u{10000}', '\u{10ffff}', '𝔘']),
            _ => loop {
                let v = rnd::below(rng, 0x11_0000) as u32;
                if let Some(c) = char::from_u32(v) {
                    break c;
                }
            },
        };
        s.push(c);
    }
    s
}

pub fn hex_string(rng: &mut ChaCha20Rng, n_chars: usize) -> String {
    const H: &[u8] = b"0123456789abcdef";
    (0..n_chars).map(|_| H[rnd::usize_below(rng, 16)] as char).collect()
}

/// shorten long strings for `what` messages
pub fn clip(s: &str, n: usize) -> String {
    if s.chars().count() <= n {
        s.to_string()
    } else {
        let head: String = s.chars().take(n).collect();
        format!("{head}...({} chars)", s.chars().count())
    }
}
