#!/bin/bash
# Development helper: cargo's `members = ["mon-*"]` glob fails while a member directory is half
# written by a parallel worker. Create a placeholder manifest / main.rs where one is missing.
for d in /verif/harness/mon-*; do
  [ -d "$d" ] || continue
  n=$(basename "$d")
  if [ ! -f "$d/Cargo.toml" ]; then
    printf '[package]\nname = "%s"\nversion = "0.1.0"\nedition = "2021"\n' "$n" > "$d/Cargo.toml"; echo "stub manifest $n"
  fi
  if [ ! -f "$d/src/main.rs" ] && [ ! -f "$d/src/lib.rs" ]; then
    mkdir -p "$d/src"; echo 'fn main() {}' > "$d/src/main.rs"; echo "stub main $n"
  fi
done
