//! Counting global allocator for the "allocation out of proportion" oracle (C05).
//!
//! A binary opts in with `#[global_allocator] static A: vcore::alloc::Counting = vcore::alloc::Counting;`
//! The allocator tracks, per thread, the largest single request seen since `reset_peak()`. Requests
//! above `REFUSE_ABOVE` are refused (null => `handle_alloc_error` / `capacity overflow` paths) after
//! the marker has been recorded in a process-wide atomic, so the box never really runs out of memory
//! and the parent process can read the marker file of an aborted child.
use std::alloc::{GlobalAlloc, Layout, System};
use std::cell::Cell;
use std::sync::atomic::{AtomicUsize, Ordering};

pub struct Counting;

thread_local! {
    static PEAK: Cell<usize> = const { Cell::new(0) };
}
/// process-wide largest single request (survives the thread that made it)
pub static GLOBAL_PEAK: AtomicUsize = AtomicUsize::new(0);
/// requests above this size are refused (returns null)
pub static REFUSE_ABOVE: AtomicUsize = AtomicUsize::new(1 << 30);
/// file descriptor to which "BIGALLOC <size>\n" is written before refusing (0 = none)
pub static MARKER_FD: AtomicUsize = AtomicUsize::new(0);

pub fn reset_peak() {
    let _ = PEAK.try_with(|p| p.set(0));
}
pub fn peak() -> usize {
    PEAK.try_with(|p| p.get()).unwrap_or(0)
}

#[inline]
fn note(size: usize) -> bool {
    let _ = PEAK.try_with(|p| {
        if size > p.get() {
            p.set(size)
        }
    });
    if size > (1 << 20) {
        GLOBAL_PEAK.fetch_max(size, Ordering::Relaxed);
    }
    if size > REFUSE_ABOVE.load(Ordering::Relaxed) {
        let fd = MARKER_FD.load(Ordering::Relaxed);
        if fd != 0 {
            // format without allocating
            let mut buf = [0u8; 40];
            let prefix = b"BIGALLOC ";
            buf[..prefix.len()].copy_from_slice(prefix);
            let mut n = size;
            let mut digits = [0u8; 24];
            let mut i = 0;
            if n == 0 {
                digits[0] = b'0';
                i = 1;
            }
            while n > 0 {
                digits[i] = b'0' + (n % 10) as u8;
                n /= 10;
                i += 1;
            }
            let mut pos = prefix.len();
            while i > 0 {
                i -= 1;
                buf[pos] = digits[i];
                pos += 1;
            }
            buf[pos] = b'\n';
            pos += 1;
            unsafe {
                write(fd as i32, buf.as_ptr(), pos);
            }
        }
        return false;
    }
    true
}

extern "C" {
    fn write(fd: i32, buf: *const u8, count: usize) -> isize;
}

unsafe impl GlobalAlloc for Counting {
    unsafe fn alloc(&self, layout: Layout) -> *mut u8 {
        if !note(layout.size()) {
            return std::ptr::null_mut();
        }
        System.alloc(layout)
    }
    unsafe fn dealloc(&self, ptr: *mut u8, layout: Layout) {
        System.dealloc(ptr, layout)
    }
    unsafe fn alloc_zeroed(&self, layout: Layout) -> *mut u8 {
        if !note(layout.size()) {
            return std::ptr::null_mut();
        }
        System.alloc_zeroed(layout)
    }
    unsafe fn realloc(&self, ptr: *mut u8, layout: Layout, new_size: usize) -> *mut u8 {
        if !note(new_size) {
            return std::ptr::null_mut();
        }
        System.realloc(ptr, layout, new_size)
    }
}
