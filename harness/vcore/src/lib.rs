//! vcore: shared plumbing of the /verif runtime monitors.
//!
//! * seeds: ChaCha20 from (VERIF_SEED, property id, label, shard)
//! * Monitor: counts evaluations / distinct non-trivial cases / named counters, keeps samples,
//!   collects violations (checked against /verif/known_findings.json), writes
//!   /verif/evidence/<id>.json and replay files, decides the exit code (three-valued verdict)
//! * panic capture (`catch`) with location recording and a silent hook
//! * sharded execution on OS threads
use rand_chacha::ChaCha20Rng;
use rand_core::SeedableRng;
use serde_json::{json, Map, Value};
use sha2::{Digest, Sha256};
use std::cell::RefCell;
use std::collections::{BTreeMap, HashSet};
use std::path::PathBuf;
use std::time::Instant;

pub use rand_chacha;
pub use rand_core;
pub use serde_json;

pub mod alloc;
pub mod rnd;

#[derive(Clone, Copy, Debug, PartialEq, Eq)]
pub enum Tier {
    Quick,
    Thorough,
}

impl Tier {
    pub fn as_str(&self) -> &'static str {
        match self {
            Tier::Quick => "quick",
            Tier::Thorough => "thorough",
        }
    }
    /// pick a size by tier
    pub fn pick<T>(&self, quick: T, thorough: T) -> T {
        match self {
            Tier::Quick => quick,
            Tier::Thorough => thorough,
        }
    }
}

#[derive(Clone, Debug)]
pub struct Args {
    pub prop: String,
    pub tier: Tier,
    pub seed: u64,
    pub replay: Option<PathBuf>,
    pub extra: Vec<String>,
}

/// `<bin> <PROP> [--tier quick|thorough] [--replay FILE] [extra...]`; env VERIF_SEED, VERIF_TIER.
pub fn parse_args() -> Args {
    let mut it = std::env::args().skip(1);
    let prop = it.next().unwrap_or_else(|| {
        eprintln!("usage: <bin> <PROPERTY> [--tier quick|thorough] [--replay FILE]");
        std::process::exit(2)
    });
    let mut tier = match std::env::var("VERIF_TIER").ok().as_deref() {
        Some("thorough") => Tier::Thorough,
        _ => Tier::Quick,
    };
    let mut replay = None;
    let mut extra = vec![];
    while let Some(a) = it.next() {
        match a.as_str() {
            "--tier" => {
                tier = match it.next().as_deref() {
                    Some("thorough") => Tier::Thorough,
                    _ => Tier::Quick,
                }
            }
            "--replay" => replay = it.next().map(PathBuf::from),
            _ => extra.push(a),
        }
    }
    let seed = std::env::var("VERIF_SEED")
        .ok()
        .and_then(|s| s.trim().parse::<u64>().ok())
        .unwrap_or(0);
    Args { prop, tier, seed, replay, extra }
}

/// Root of the verification tree (the directory that holds MANIFEST.json).
pub fn verif_root() -> PathBuf {
    if let Ok(p) = std::env::var("VERIF_ROOT") {
        return PathBuf::from(p);
    }
    // vcore lives in <root>/harness/vcore
    PathBuf::from(env!("CARGO_MANIFEST_DIR")).parent().unwrap().parent().unwrap().to_path_buf()
}

pub fn derive_seed(seed: u64, prop: &str, label: &str, shard: u64) -> [u8; 32] {
    let mut h = Sha256::new();
    h.update(b"verif-seed-v1");
    h.update(seed.to_le_bytes());
    h.update((prop.len() as u64).to_le_bytes());
    h.update(prop.as_bytes());
    h.update((label.len() as u64).to_le_bytes());
    h.update(label.as_bytes());
    h.update(shard.to_le_bytes());
    h.finalize().into()
}

#[derive(Clone, Debug)]
pub struct KnownFinding {
    pub property: String,
    pub signature: String,
    pub status: String,
    pub what: String,
}

fn load_known(prop: &str) -> Vec<KnownFinding> {
    let p = verif_root().join("known_findings.json");
    let Ok(txt) = std::fs::read_to_string(&p) else { return vec![] };
    let Ok(v) = serde_json::from_str::<Value>(&txt) else {
        eprintln!("warning: cannot parse {}", p.display());
        return vec![];
    };
    let mut out = vec![];
    if let Some(arr) = v.get("findings").and_then(|f| f.as_array()) {
        for f in arr {
            let g = |k: &str| f.get(k).and_then(|x| x.as_str()).unwrap_or("").to_string();
            if g("property") == prop {
                out.push(KnownFinding {
                    property: g("property"),
                    signature: g("signature"),
                    status: g("status"),
                    what: g("what"),
                });
            }
        }
    }
    out
}

#[derive(Clone, Debug)]
pub struct Violation {
    pub signature: String,
    pub what: String,
    pub replay: Value,
}

pub struct Monitor {
    pub prop: String,
    pub tier: Tier,
    pub seed: u64,
    pub level: String,
    start: Instant,
    pub evaluations: u64,
    distinct: HashSet<[u8; 16]>,
    pub counters: BTreeMap<String, u64>,
    samples: Vec<Value>,
    pub max_samples: usize,
    violations: Vec<Violation>,
    violation_count: u64,
    known: Vec<KnownFinding>,
    known_hits: BTreeMap<String, u64>,
    pub extra: Map<String, Value>,
    pub inconclusive: Vec<String>,
}

impl Monitor {
    pub fn new(args: &Args) -> Self {
        Self::with(&args.prop, args.tier, args.seed)
    }
    pub fn with(prop: &str, tier: Tier, seed: u64) -> Self {
        Monitor {
            prop: prop.to_string(),
            tier,
            seed,
            level: "exploration".into(),
            start: Instant::now(),
            evaluations: 0,
            distinct: HashSet::new(),
            counters: BTreeMap::new(),
            samples: vec![],
            max_samples: 6,
            violations: vec![],
            violation_count: 0,
            known: load_known(prop),
            known_hits: BTreeMap::new(),
            extra: Map::new(),
            inconclusive: vec![],
        }
    }
    /// empty monitor with the same identity (for a shard / thread)
    pub fn fork(&self) -> Monitor {
        let mut m = Monitor::with(&self.prop, self.tier, self.seed);
        m.known = self.known.clone();
        m.level = self.level.clone();
        m.max_samples = self.max_samples;
        m
    }
    pub fn merge(&mut self, o: Monitor) {
        self.evaluations += o.evaluations;
        self.distinct.extend(o.distinct);
        for (k, v) in o.counters {
            *self.counters.entry(k).or_insert(0) += v;
        }
        for s in o.samples {
            if self.samples.len() < self.max_samples {
                self.samples.push(s);
            }
        }
        self.violation_count += o.violation_count;
        for v in o.violations {
            let same = self.violations.iter().filter(|x| x.signature == v.signature).count();
            if same < 3 && self.violations.len() < 30 {
                self.violations.push(v);
            }
        }
        for (k, v) in o.known_hits {
            *self.known_hits.entry(k).or_insert(0) += v;
        }
        for (k, v) in o.extra {
            self.extra.insert(k, v);
        }
        self.inconclusive.extend(o.inconclusive);
    }
    pub fn rng(&self, label: &str, shard: u64) -> ChaCha20Rng {
        ChaCha20Rng::from_seed(derive_seed(self.seed, &self.prop, label, shard))
    }
    pub fn eval(&mut self) {
        self.evaluations += 1;
    }
    pub fn evals(&mut self, n: u64) {
        self.evaluations += n;
    }
    /// register a distinct non-trivial case, identified by `key`
    pub fn nontrivial(&mut self, key: &[u8]) {
        let d = Sha256::digest(key);
        let mut k = [0u8; 16];
        k.copy_from_slice(&d[..16]);
        self.distinct.insert(k);
    }
    pub fn nontrivial_str(&mut self, key: &str) {
        self.nontrivial(key.as_bytes())
    }
    pub fn distinct_count(&self) -> u64 {
        self.distinct.len() as u64
    }
    pub fn count(&mut self, name: &str) {
        *self.counters.entry(name.to_string()).or_insert(0) += 1;
    }
    pub fn count_n(&mut self, name: &str, n: u64) {
        *self.counters.entry(name.to_string()).or_insert(0) += n;
    }
    pub fn counter(&self, name: &str) -> u64 {
        self.counters.get(name).copied().unwrap_or(0)
    }
    pub fn sample(&mut self, v: Value) {
        if self.samples.len() < self.max_samples {
            self.samples.push(v);
        }
    }
    pub fn wants_sample(&self) -> bool {
        self.samples.len() < self.max_samples
    }
    pub fn violations(&self) -> u64 {
        self.violation_count
    }
    pub fn known_hit_count(&self, signature: &str) -> u64 {
        self.known_hits.get(signature).copied().unwrap_or(0)
    }
    /// Report a witness. `signature` names the exact witness class; when it equals the signature
    /// of a `known` entry of known_findings.json the witness is counted as known finding instead.
    pub fn violation(&mut self, signature: &str, what: &str, replay: Value) {
        if self.known.iter().any(|k| k.status == "known" && k.signature == signature) {
            *self.known_hits.entry(signature.to_string()).or_insert(0) += 1;
            return;
        }
        self.violation_count += 1;
        // keep at most 3 witnesses per signature and 30 in total, so that one noisy class cannot
        // hide a different one
        let same = self.violations.iter().filter(|v| v.signature == signature).count();
        if same < 3 && self.violations.len() < 30 {
            self.violations.push(Violation {
                signature: signature.to_string(),
                what: what.to_string(),
                replay,
            });
        }
    }
    pub fn inconclusive(&mut self, why: &str) {
        if self.inconclusive.len() < 20 {
            self.inconclusive.push(why.to_string());
        }
    }
    /// Serialise the collected state (for a child process reporting to its parent).
    pub fn dump(&self) -> Value {
        json!({
            "evaluations": self.evaluations,
            "distinct": self.distinct.iter().map(|k| hex::encode(k)).collect::<Vec<_>>(),
            "counters": self.counters,
            "samples": self.samples,
            "violation_count": self.violation_count,
            "violations": self.violations.iter().map(|v| json!({"signature": v.signature, "what": v.what, "replay": v.replay})).collect::<Vec<_>>(),
            "known_hits": self.known_hits,
            "extra": self.extra,
            "inconclusive": self.inconclusive,
        })
    }
    /// Merge a `dump()` produced by another process.
    pub fn absorb(&mut self, d: &Value) {
        self.evaluations += d["evaluations"].as_u64().unwrap_or(0);
        if let Some(a) = d["distinct"].as_array() {
            for k in a {
                if let Some(b) = k.as_str().and_then(|s| hex::decode(s).ok()) {
                    if b.len() == 16 {
                        let mut kk = [0u8; 16];
                        kk.copy_from_slice(&b);
                        self.distinct.insert(kk);
                    }
                }
            }
        }
        if let Some(c) = d["counters"].as_object() {
            for (k, v) in c {
                *self.counters.entry(k.clone()).or_insert(0) += v.as_u64().unwrap_or(0);
            }
        }
        if let Some(a) = d["samples"].as_array() {
            for s in a {
                if self.samples.len() < self.max_samples {
                    self.samples.push(s.clone());
                }
            }
        }
        self.violation_count += d["violation_count"].as_u64().unwrap_or(0);
        if let Some(a) = d["violations"].as_array() {
            for v in a {
                let sig = v["signature"].as_str().unwrap_or("").to_string();
                let same = self.violations.iter().filter(|x| x.signature == sig).count();
                if same < 3 && self.violations.len() < 30 {
                    self.violations.push(Violation { signature: sig, what: v["what"].as_str().unwrap_or("").to_string(), replay: v["replay"].clone() });
                }
            }
        }
        if let Some(c) = d["known_hits"].as_object() {
            for (k, v) in c {
                *self.known_hits.entry(k.clone()).or_insert(0) += v.as_u64().unwrap_or(0);
            }
        }
        if let Some(c) = d["extra"].as_object() {
            for (k, v) in c {
                self.extra.insert(k.clone(), v.clone());
            }
        }
        if let Some(a) = d["inconclusive"].as_array() {
            for w in a {
                if let Some(s) = w.as_str() {
                    self.inconclusive(s);
                }
            }
        }
    }
    pub fn elapsed_s(&self) -> f64 {
        self.start.elapsed().as_secs_f64()
    }

    /// Write evidence + replay files, print verdict lines, and exit.
    pub fn finish(self, rule: &str, assumptions: &[&str], min_nontrivial: u64) -> ! {
        let code = self.finish_noexit(rule, assumptions, min_nontrivial);
        std::process::exit(code)
    }

    pub fn finish_noexit(self, rule: &str, assumptions: &[&str], min_nontrivial: u64) -> i32 {
        let root = verif_root();
        let wall = self.start.elapsed().as_secs_f64();
        let mut coverage = Map::new();
        coverage.insert("evaluations".into(), json!(self.evaluations));
        coverage.insert("distinct_nontrivial".into(), json!(self.distinct.len()));
        coverage.insert("rule".into(), json!(rule));
        coverage.insert("samples".into(), Value::Array(self.samples.clone()));
        coverage.insert("counters".into(), json!(self.counters));
        for (k, v) in &self.extra {
            coverage.insert(k.clone(), v.clone());
        }
        let known_obs: Vec<Value> = self
            .known
            .iter()
            .filter(|k| k.status == "known")
            .map(|k| {
                json!({"signature": k.signature, "what": k.what,
                       "observed": self.known_hits.get(&k.signature).copied().unwrap_or(0)})
            })
            .collect();
        let ev = json!({
            "property_id": self.prop,
            "tier": self.tier.as_str(),
            "seed": self.seed,
            "level": self.level,
            "coverage": Value::Object(coverage),
            "assumptions": assumptions,
            "wall_s": (wall * 1000.0).round() / 1000.0,
            "violations": self.violation_count,
            "known_findings": known_obs,
            "inconclusive": self.inconclusive,
        });
        let evdir = root.join("evidence");
        let _ = std::fs::create_dir_all(&evdir);
        let evpath = evdir.join(format!("{}.json", self.prop));
        if let Err(e) = std::fs::write(&evpath, serde_json::to_string_pretty(&ev).unwrap()) {
            eprintln!("cannot write evidence {}: {e}", evpath.display());
        }
        // counters summary to stdout
        println!(
            "[{}] tier={} seed={} evaluations={} distinct_nontrivial={} wall={:.1}s",
            self.prop,
            self.tier.as_str(),
            self.seed,
            self.evaluations,
            self.distinct.len(),
            wall
        );
        for (k, v) in &self.counters {
            println!("[{}]   {k} = {v}", self.prop);
        }
        for k in self.known.iter().filter(|k| k.status == "known") {
            let n = self.known_hits.get(&k.signature).copied().unwrap_or(0);
            if n > 0 {
                println!(
                    "KNOWN-FINDING: property={} {} [signature: {}; observed {} time(s) in this run]",
                    self.prop, k.what, k.signature, n
                );
            } else {
                println!(
                    "NOTE: listed known finding not reproduced by this run: property={} signature={}",
                    self.prop, k.signature
                );
            }
        }
        if self.violation_count > 0 {
            let rdir = root.join("replay").join(&self.prop);
            let _ = std::fs::create_dir_all(&rdir);
            for (i, v) in self.violations.iter().enumerate() {
                let p = rdir.join(format!("{}-seed{}-{}.json", self.tier.as_str(), self.seed, i));
                let doc = json!({
                    "property": self.prop, "tier": self.tier.as_str(), "seed": self.seed,
                    "signature": v.signature, "what": v.what, "replay": v.replay,
                });
                let _ = std::fs::write(&p, serde_json::to_string_pretty(&doc).unwrap());
                println!("VIOLATION property={} replay={}", self.prop, p.display());
                println!("  signature: {}", v.signature);
                println!("  what: {}", v.what);
            }
            if self.violation_count as usize > self.violations.len() {
                println!(
                    "  ({} violations in total, {} written)",
                    self.violation_count,
                    self.violations.len()
                );
            }
            return 1;
        }
        if !self.inconclusive.is_empty() {
            for w in &self.inconclusive {
                println!("INCONCLUSIVE property={} {}", self.prop, w);
            }
            return 2;
        }
        if (self.distinct.len() as u64) < min_nontrivial {
            println!(
                "INCONCLUSIVE property={} only {} distinct non-trivial cases observed (minimum {})",
                self.prop,
                self.distinct.len(),
                min_nontrivial
            );
            return 2;
        }
        println!("HELD property={} on everything explored", self.prop);
        0
    }
}

/// Run `n_shards` shards on up to `threads` OS threads; each shard gets a forked monitor that is
/// merged back in shard order (deterministic result for a given seed).
pub fn run_shards<F>(mon: &mut Monitor, n_shards: u64, threads: usize, f: F)
where
    F: Fn(u64, &mut Monitor) + Sync,
{
    let next = std::sync::atomic::AtomicU64::new(0);
    let results: std::sync::Mutex<BTreeMap<u64, Monitor>> = std::sync::Mutex::new(BTreeMap::new());
    let threads = threads.max(1).min(n_shards.max(1) as usize);
    std::thread::scope(|s| {
        for _ in 0..threads {
            s.spawn(|| loop {
                let i = next.fetch_add(1, std::sync::atomic::Ordering::SeqCst);
                if i >= n_shards {
                    break;
                }
                let mut m = mon.fork();
                f(i, &mut m);
                results.lock().unwrap().insert(i, m);
            });
        }
    });
    for (_, m) in results.into_inner().unwrap() {
        mon.merge(m);
    }
}

pub fn default_threads() -> usize {
    std::env::var("VERIF_THREADS")
        .ok()
        .and_then(|s| s.parse().ok())
        .unwrap_or_else(|| std::thread::available_parallelism().map(|n| n.get()).unwrap_or(8).min(16))
}

// ---------------------------------------------------------------------------------------------
// panic capture

thread_local! {
    static LAST_PANIC: RefCell<Option<String>> = const { RefCell::new(None) };
    static CAPTURING: RefCell<bool> = const { RefCell::new(false) };
}

/// Install a panic hook that records "<location>: <message>" in a thread local when the panic
/// happens inside `catch` (and stays silent), and falls back to the default hook otherwise.
pub fn install_panic_hook() {
    let default = std::panic::take_hook();
    std::panic::set_hook(Box::new(move |info| {
        let capturing = CAPTURING.with(|c| *c.borrow());
        if capturing {
            let loc = info
                .location()
                .map(|l| format!("{}:{}", l.file(), l.line()))
                .unwrap_or_else(|| "?".into());
            let msg = if let Some(s) = info.payload().downcast_ref::<&str>() {
                s.to_string()
            } else if let Some(s) = info.payload().downcast_ref::<String>() {
                s.clone()
            } else {
                "<non-string panic>".into()
            };
            LAST_PANIC.with(|p| *p.borrow_mut() = Some(format!("{loc}: {msg}")));
        } else {
            default(info);
        }
    }));
}

/// Run `f`, converting a panic into Err("<file>:<line>: <message>").
pub fn catch<R>(f: impl FnOnce() -> R) -> Result<R, String> {
    let prev = CAPTURING.with(|c| std::mem::replace(&mut *c.borrow_mut(), true));
    let r = std::panic::catch_unwind(std::panic::AssertUnwindSafe(f));
    CAPTURING.with(|c| *c.borrow_mut() = prev);
    match r {
        Ok(v) => Ok(v),
        Err(_) => Err(LAST_PANIC.with(|p| p.borrow_mut().take()).unwrap_or_else(|| "panic".into())),
    }
}

/// strip the message part and keep `file:line` of a captured panic
pub fn panic_location(p: &str) -> String {
    match p.find(": ") {
        Some(i) => p[..i].to_string(),
        None => p.to_string(),
    }
}

pub fn hex(b: &[u8]) -> String {
    hex::encode(b)
}
