//! tiny helpers over RngCore (avoids depending on a particular `rand` version)
use rand_core::RngCore;

/// uniform in [0, n) (n > 0); modulo bias is irrelevant for workload generation
pub fn below<R: RngCore>(r: &mut R, n: u64) -> u64 {
    if n == 0 {
        0
    } else {
        r.next_u64() % n
    }
}
/// uniform in [lo, hi] inclusive
pub fn range<R: RngCore>(r: &mut R, lo: u64, hi: u64) -> u64 {
    if hi <= lo {
        lo
    } else if hi - lo == u64::MAX {
        r.next_u64()
    } else {
        lo + below(r, hi - lo + 1)
    }
}
pub fn usize_below<R: RngCore>(r: &mut R, n: usize) -> usize {
    below(r, n as u64) as usize
}
pub fn chance<R: RngCore>(r: &mut R, num: u64, den: u64) -> bool {
    below(r, den) < num
}
pub fn pick<'a, R: RngCore, T>(r: &mut R, xs: &'a [T]) -> &'a T {
    &xs[usize_below(r, xs.len())]
}
pub fn bytes<R: RngCore>(r: &mut R, n: usize) -> Vec<u8> {
    let mut v = vec![0u8; n];
    r.fill_bytes(&mut v);
    v
}
pub fn shuffle<R: RngCore, T>(r: &mut R, xs: &mut [T]) {
    for i in (1..xs.len()).rev() {
        let j = usize_below(r, i + 1);
        xs.swap(i, j);
    }
}
pub fn f64_unit<R: RngCore>(r: &mut R) -> f64 {
    (r.next_u64() >> 11) as f64 / (1u64 << 53) as f64
}
/// all permutations of 0..n (n small)
pub fn permutations(n: usize) -> Vec<Vec<usize>> {
    fn rec(cur: &mut Vec<usize>, used: &mut Vec<bool>, n: usize, out: &mut Vec<Vec<usize>>) {
        if cur.len() == n {
            out.push(cur.clone());
            return;
        }
        for i in 0..n {
            if !used[i] {
                used[i] = true;
                cur.push(i);
                rec(cur, used, n, out);
                cur.pop();
                used[i] = false;
            }
        }
    }
    let mut out = vec![];
    rec(&mut vec![], &mut vec![false; n], n, &mut out);
    out
}
