#!/bin/bash
# Confirm a seeded breaking change delivered by an independent sub-agent in its scratch worktree:
#   tools/confirm_seeded.sh <Cxx> <m1|m2>   (worktree /tmp/mut-<Cxx>, deliverables in OUT/<mi>)
# 1. patch applied: touched crates build and their existing test suites pass
# 2. patch + demo: the demonstration FAILS      3. demo alone: the demonstration PASSES
set -u
P=$1; M=$2; WT=/tmp/mut-$P; OUT=$WT/OUT/$M
cd $WT || exit 2
clean() { git -C $WT checkout -q -- . ; git -C $WT clean -qfd -e OUT -e target; }
export CARGO_TARGET_DIR=$WT/target CARGO_NET_OFFLINE=true TMPDIR=$WT/target/tmpdir; mkdir -p $TMPDIR   # private temp dir: the repo tests share fixed paths below temp_dir()
CRATES=$(python3 -c "import json;print(' '.join('-p '+c for c in json.load(open('$OUT/meta.json'))['touched_crates']))")
DEMO=$(python3 -c "import json;print(json.load(open('$OUT/meta.json'))['demo_cmd'])")
clean; git apply $OUT/patch.diff || { echo "PATCH-DOES-NOT-APPLY"; exit 2; }
echo "== existing tests with the change ($CRATES)"
FEAT=""; case "$CRATES" in *mithril-client*) FEAT="--features fs,unstable,rustls";; esac
if [ "${SKIP_SUITE:-0}" = "1" ]; then echo "(suite skipped)"; T=0; else cargo test --offline $CRATES $FEAT 2>&1 | grep -E "^test result|FAILED|^error" | sort | uniq -c | head -8; T=${PIPESTATUS[0]}; fi
case "$DEMO" in *"git apply"*) SELF_APPLY=1;; *) SELF_APPLY=0;; esac   # some demo commands apply demo.diff themselves
[ $SELF_APPLY = 1 ] || git apply $OUT/demo.diff || { echo "DEMO-DOES-NOT-APPLY"; clean; exit 2; }
echo "== demo with the change: $DEMO"
( eval "$DEMO" ) > $OUT/confirm_with.log 2>&1; W=$?
clean; [ $SELF_APPLY = 1 ] || git apply $OUT/demo.diff
echo "== demo without the change"
( eval "$DEMO" ) > $OUT/confirm_without.log 2>&1; WO=$?
clean
echo "RESULT $P $M suite_exit=$T demo_with_change_exit=$W demo_without_change_exit=$WO"
[ $T -eq 0 ] && [ $W -ne 0 ] && [ $WO -eq 0 ] && echo "CONFIRMED $P $M" || echo "NOT-CONFIRMED $P $M"
