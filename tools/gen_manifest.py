#!/usr/bin/env python3
"""Regenerates /verif/MANIFEST.json from the table below (single source of truth for the
registered checks).  Run after adding or changing a check:  python3 tools/gen_manifest.py"""
import json, os, subprocess

ROOT = os.path.dirname(os.path.dirname(os.path.abspath(__file__)))

def check(pid, engine, category, text, note, technique, design_ref, thorough=True):
    d = {
        "property_id": pid,
        "quick_cmd": f"./check {pid} --tier quick",
        "evidence_file": f"/verif/evidence/{pid}.json",
        "replay_cmd_template": f"./check {pid} --replay {{path}}",
        "engine": engine,
        "level_claimed": {"category": category, "text": text, "design_ref": design_ref},
        "level_note": note,
        "technique": technique,
    }
    if thorough:
        d["thorough_cmd"] = f"./check {pid} --tier thorough"
    return d

CHECKS = [
    check("C01", "mon-stm", "exploration",
          "Runtime monitor: every candidate aggregate (honest + ~60 structure-aware mutators of the wire value, through JSON/CBOR/legacy decoders, single and batched incl. the algebraic cross-member compensation adversary) is judged by the real verify/batch_verify of the working tree and by an independent acceptance rule written from the statement (blst + blake2 + a logarithm-based lottery); accept => reference-accept is asserted on every execution. Held on the tens of thousands of seeded cases explored per run, not a proof.",
          "trusts blst/blake2 as primitives, the harness reference rule (self-checked against honest aggregates), BLS unforgeability; lottery draws within 1e-9 relative of the threshold are skipped",
          "runtime monitor: differential oracle (independent acceptance rule) over mutated wire values", "DESIGN.md §2 C01"),
    check("C02", "mon-stm", "exploration",
          "Runtime monitor over multisets of single signatures: validity of each member is established independently (public verify + blst), then |valid index union| >= k => aggregate Ok and result verifies, and Ok(S) => Ok(S+X) for every extra material X (duplicates, same-sigma relabelled copies, corrupted, other-message, other-registration, unregistered slot), all orders for |S|<=5. Held on the multisets explored.",
          "trusts blst, the public SingleSignature::verify as definition of 'valid'",
          "runtime monitor: metamorphic (monotonicity / order independence) + completeness oracle over generated multisets", "DESIGN.md §2 C02"),
    check("C06", "mon-stm", "exploration",
          "Runtime monitor: for each generated registration set the aggregate key bytes, total stake and every party's slot are observed through mithril-stm directly, through mithril-common's SignerBuilder over KES-certified fixture signers, and after passing signers and key through their JSON/hex wire forms; observations must be equal across all registration orders (all n! for n<=6, sampled above) and paths, and differ for neighbouring sets. Held on the sets explored.",
          "Blake2b collision resistance; equal-prefix keys are drawn from a pool of a few hundred keys (pairs sharing 2 leading bytes, not more)",
          "runtime monitor: metamorphic equality across permutations / computation paths / codecs", "DESIGN.md §2 C06"),
    check("C08", "mon-stm", "exploration",
          "Runtime monitor with an offline exact checker: the real is_lottery_won (eligibility.rs of the working tree compiled in by path inclusion) is evaluated on ~20k (quick) to millions (thorough) of cases concentrated around the threshold; every decision is logged and judged by an independent mpmath (600-bit) evaluation of p < 1-(1-phi)^(stake/total) outside a 2^-40 band; determinism, monotonicity chains, stake 0, phi 1 and signer/verifier agreement per index are asserted online.",
          "mpmath as reference; 2^-40 band around equality is not judged; only the num-integer backend (the one compiled in this workspace) is observed",
          "runtime monitor: decision log + offline exact-arithmetic checker (differential), online monotonicity/determinism assertions", "DESIGN.md §2 C08"),
]

ALL = [f"C{i:02d}" for i in range(1, 21)]

def main():
    claimed = {c["property_id"] for c in CHECKS}
    na = [{"property_id": p, "reason": "check not built yet in this round (planned in DESIGN.md; the technique applies)"}
          for p in ALL if p not in claimed]
    hooks_commits = []
    hc = os.path.join(ROOT, "hooks_commits.txt")
    if os.path.exists(hc):
        hooks_commits = [l.split()[0] for l in open(hc) if l.strip() and not l.startswith("#")]
    manifest = {
        "version": 1,
        "setup_cmd": "./check --build-all",
        "hooks": {
            "guard": "--cfg mithril_verif",
            "enable": "RUSTFLAGS='--cfg mithril_verif' (set by ./check and harness/.cargo/config.toml); hooks are #[cfg(mithril_verif)] items in /repo crates",
            "baseline_off_cmd": "cd /repo && cargo nextest run --workspace --no-fail-fast --tool-config-file pb:/w/lib/nextest.toml --profile pb --test-threads 8 --offline || cargo test --workspace --no-fail-fast --offline",
            "source_commits": hooks_commits,
            "add_only": True,
        },
        "engines": [
            {"name": "mon-stm", "path": "harness/mon-stm", "serves_properties": ["C01", "C02", "C06", "C08"],
             "kind_free_text": "Rust monitors linking mithril-stm of the working tree; reference oracles in refagg.rs/reflot.rs"},
        ],
        "checks": CHECKS,
        "not_applicable": na,
        "notes": "Exit codes of ./check: 0 held, 1 violation (VIOLATION line), 2 inconclusive (build failure / too few non-trivial cases). Known findings: /verif/known_findings.json.",
    }
    with open(os.path.join(ROOT, "MANIFEST.json"), "w") as f:
        json.dump(manifest, f, indent=1)
        f.write("\n")
    print("MANIFEST.json written:", len(CHECKS), "checks,", len(na), "not claimed")

if __name__ == "__main__":
    main()
