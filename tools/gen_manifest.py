#!/usr/bin/env python3
"""Regenerates /verif/MANIFEST.json from the table below (single source of truth for the
registered checks).  Run after adding or changing a check:  python3 tools/gen_manifest.py"""
import json, os, subprocess

ROOT = os.path.dirname(os.path.dirname(os.path.abspath(__file__)))

def check(pid, engine, category, text, note, technique, design_ref, thorough=True):
    d = {
        "property_id": pid,
        "quick_cmd": f"./check {pid} --tier quick",
        "evidence_file": f"/verif/evidence/{pid}.json",
        "replay_cmd_template": f"./check {pid} --replay {{path}}",
        "engine": engine,
        "level_claimed": {"category": category, "text": text, "design_ref": design_ref},
        "level_note": note,
        "technique": technique,
    }
    if thorough:
        d["thorough_cmd"] = f"./check {pid} --tier thorough"
    return d

CHECKS = [
    check("C01", "mon-stm", "exploration",
          "Runtime monitor: every candidate aggregate (honest + ~70 structure-aware mutator families of the wire value - index / slot / stake / key / sigma edits incl. one sigma under two slots and sigma shifted by a point outside the prime-order subgroup, entries appended behind an untouched batch path, batch-path edits - through JSON/CBOR/legacy decoders, single and batched incl. the algebraic cross-member compensation adversary and batch members verified under their own stricter parameters) is judged by the real verify/batch_verify of the working tree and by an independent acceptance rule written from the statement (blst + blake2 + a logarithm-based lottery); accept => reference-accept is asserted on every execution. Held on the tens of thousands of seeded cases explored per run, not a proof.",
          "trusts blst/blake2 as primitives, the harness reference rule (self-checked against honest aggregates), BLS unforgeability; lottery draws within 1e-9 relative of the threshold are skipped",
          "runtime monitor: differential oracle (independent acceptance rule) over mutated wire values", "DESIGN.md §2 C01"),
    check("C02", "mon-stm", "exploration",
          "Runtime monitor over multisets of single signatures: validity of each member is established independently (public verify + blst), then |valid index union| >= k => aggregate Ok and result verifies, and Ok(S) => Ok(S+X) for every extra material X (duplicates, same-sigma relabelled copies, corrupted, other-message, other-registration, unregistered slot), all orders for |S|<=5. Held on the multisets explored.",
          "trusts blst, the public SingleSignature::verify as definition of 'valid'",
          "runtime monitor: metamorphic (monotonicity / order independence) + completeness oracle over generated multisets", "DESIGN.md §2 C02"),
    check("C03", "mon-chain", "exploration",
          "Runtime monitor: the provider's answer table (hash -> certificate served, lies included) is judged by mithril-common's verify_certificate_chain through a harness retriever and by mithril-client's verify_chain (feature unstable: cold, warm and poisoned-by-earlier-run caches), and by an INDEPENDENT reference validator that walks previous_hash through the same table requiring exactly the conjuncts of the statement (bounded walk => loops detected); accept => reference accepts, honest chains accepted. Tamperings: every single-field edit with/without hash recomputation, adversary with its own keys and genesis key (internally consistent re-signing), links re-targeted to same / previous / NEXT / older epochs, drop, duplicate, loops, wrong certificate for a hash, and 17 fully-signed single-conjunct breaks.",
          "certificate hash / message digest of the working tree used as definitions (C04 judges them); the commitment to protocol parameters is computed by the reference itself (k, m, phi_f at fixed-point precision; out-of-range phi_f equals nothing) and the `fixed` crate is built without its debug assertions, as in production; multi-signature validity from the STM verifier (C01 judges it); a chain whose genesis certificate carries altered (unsigned) key/parameter fields satisfies the statement literally and is counted, not reported",
          "runtime monitor: reference validator over the provider answer table (differential) incl. cache histories", "DESIGN.md §2 C03"),
    check("C04", "mon-wire", "exploration",
          "Runtime monitor: (a) ~170 single-field mutators per certificate, generated against an exhaustive destructuring of Certificate / metadata / parties / parameters / every SignedEntityType variant / protocol message parts (a new upstream field breaks the harness build => inconclusive), each must change try_compute_hash; (b) protocol messages over the honest value grammar, random pairs and constructed near-collisions (characters moved between adjacent parts, parts dropped/added): equal digest => equal message; (c) Certificate -> CertificateMessage -> JSON text (field order shuffled, whitespace, number re-formatting, float spellings) -> back: same hash, same signed message, same verdict of the certificate verifier on real chains.",
          "two known findings (signed entity type variant not hashed) printed as KNOWN-FINDING; certificates claiming stakes far above the total are excluded from the verdict comparison (verifier lottery cost)",
          "runtime monitor: mutation + metamorphic round-trip oracle over generated certificates", "DESIGN.md §2 C04"),
    check("C05", "mon-wire", "exploration",
          "Runtime monitor in child processes with a counting global allocator: 72 decoder entry points (from_bytes / from_bytes_hex / TryFrom<&str> / Deserialize of every wire type, JSON messages and their conversions) fed with honest encodings, structure-aware mutations (every length/count field of the legacy layouts set to boundary values, truncation at every offset, splices, CBOR head rewriting, nesting bombs, prefix flips, JSON abuse) and random bytes; outcome classes value / error / PANIC (hook) / ABORT (child exit status, last input persisted before the call) / allocation out of proportion (single request > 16 MiB and > 256x input) / no termination (watchdog); honest values must round-trip. Dev profile = overflow checks on. Thorough adds an AddressSanitizer pass of the same workload (nightly -Zsanitizer=address, any report = violation); Miri runs are documented in DESIGN §7.",
          "rustc overflow checks / the harness allocator as sanitizers; ASan pass is part of the thorough command; Miri executed manually (command in DESIGN.md)",
          "runtime monitoring with sanitizing allocator, panic hook and process isolation over mutated encodings", "DESIGN.md §2 C05"),
    check("C06", "mon-stm", "exploration",
          "Runtime monitor: for each generated registration set the aggregate key bytes, total stake and every party's slot are observed through mithril-stm directly, through mithril-common's SignerBuilder over KES-certified fixture signers, and after passing signers and key through their JSON/hex wire forms; observations must be equal across all registration orders (all n! for n<=6, sampled above) and paths, and differ for neighbouring sets. Held on the sets explored.",
          "Blake2b collision resistance; registration histories include refused re-registration attempts of already registered keys; equal-prefix keys are drawn from a pool of a few hundred keys (pairs sharing 2 leading bytes, not more)",
          "runtime monitor: metamorphic equality across permutations / computation paths / codecs", "DESIGN.md §2 C06"),
    check("C07", "mon-reg", "exploration",
          "Runtime monitor with ground truth by construction: the harness makes cold keys, Sum6Kes keys evolved to chosen periods, operational certificates and STM keys itself and keeps a ledger of everything genuinely signed; every submission (component mutations, all pairwise splices of two valid registrations, announced evolutions at all boundaries, absent/zero-stake pools, certificate-less registration) is pushed through KeyRegWrapper::register, the aggregator's MithrilSignerRegistrationVerifier::verify and MithrilSignerRegistrationLeader::register_signer; accepted <=> all conjuncts of the statement hold, recorded party = derived pool id, recorded stake = distribution value.",
          "ed25519 / KES / BLS unforgeability; built without allow_skip_signer_certification (checked with cargo tree)",
          "runtime monitor: ground-truth-by-construction oracle over mutated and spliced registrations", "DESIGN.md §2 C07"),
    check("C08", "mon-stm", "exploration",
          "Runtime monitor with an offline exact checker: the real is_lottery_won (eligibility.rs of the working tree compiled in by path inclusion) is evaluated on ~20k (quick) to millions (thorough) of cases concentrated around the threshold; every decision is logged and judged by an independent mpmath (600-bit) evaluation of p < 1-(1-phi)^(stake/total) outside a 2^-40 band; determinism, monotonicity chains, stake 0, phi 1 and signer/verifier agreement per index are asserted online.",
          "mpmath as reference; 2^-40 band around equality is not judged; purity re-evaluations (a neighbouring call with the same stake share / another phi_f right before the case is evaluated again) are logged for the exact judge too; only the num-integer backend (the one compiled in this workspace) is observed",
          "runtime monitor: decision log + offline exact-arithmetic checker (differential), online monotonicity/determinism assertions", "DESIGN.md §2 C08"),
    check("C09", "mon-merkle", "exploration",
          "Runtime monitor: proofs of the STM registration tree (through the cfg-guarded verif_export), MKTree/MKProof, nested MKMap/MKMapProof and MkSetProof are generated and mutated; the committed root is recomputed by reference trees written in the harness (heap tree with H([0]) padding, own MMR, H(key||root) map leaves), and every proof that verifies is judged semantically: each (position, leaf) / item it claims must be committed. Exhaustive for n = 1..12 (quick) / 1..14 (thorough): every non-empty index subset and every single mutation; pairs of mutations and larger trees sampled. Miri run of the pure-Rust parts documented in DESIGN §7.",
          "Blake2 collision resistance; five encoding-level known findings (no leaf/node domain separation in MKTree/MKMap) are listed in known_findings.json and printed as KNOWN-FINDING",
          "runtime monitor: reference trees + semantic soundness oracle over exhaustively enumerated small proofs and mutations", "DESIGN.md §2 C09"),
    check("C10", "mon-client", "exploration",
          "Runtime monitor: the real CardanoImmutableDigester certifies harness-written databases (3-40 trios, identical contents included), the real client (public ClientBuilder, digests and archives served from file://) runs download_and_verify_digests / verify_cardano_database / compute_cardano_database_message + match_message on tampered directories and tampered digest lists for all range forms; oracle = the harness's own sha256 of the final directory per NAME against the certified list; completeness on untouched directories.",
          "four (+1 thorough-only) known findings printed as KNOWN-FINDING; loopback HTTP and mid-stream network faults not exercised (file:// only)",
          "runtime monitor: ground-truth (per-name hash) oracle over tampered restored directories", "DESIGN.md §2 C10"),
    check("C11", "mon-proof", "exploration",
          "Runtime monitor: honest responses are produced by the REAL prover services (MithrilProverService, legacy prover) over the aggregator's real sqlite store filled by the real importer from a harness ground-truth chain, signed messages by the real signable builders; 105 tamper classes of proof responses (both formats) and 29 of stake distributions go through the client flow (deserialize, verify, MessageBuilder::compute_*, match_message); accept => every reported item is in the chain at or below the beacon with exactly the reported fields, under one root, and the (root, latest block, offset) triple is the signed one; stake distribution accepted => served map == certified map.",
          "Merkle layer accessors trusted here (C09 judges that layer); legacy beacons restricted to range ends as the signing config produces them; harmless alterations (certified item moved to non_certified, duplicates, unsigned fields) are counted, not reported",
          "runtime monitor: ground-truth-by-construction oracle over tampered prover responses", "DESIGN.md §2 C11"),
    check("C12", "mon-digest", "exploration",
          "Runtime monitor: the real CardanoImmutableDigester / CardanoDatabaseSignableBuilder run on harness-written databases; metamorphic equality (creation order, extra files, files beyond the beacon, cache histories cold/warm/partial/longer/shorter/shared JSON cache) plus a reference root (own sha256 per file + own MMR/Blake2s tree, cross-checked against the repo tree); without cache every single-byte change / removal of a covered file must change the root or error.",
          "sha256/blake2 as primitives; excluded by stated assumption: a second directory named immutable, symlinks, files modified while cached, concurrent use of one cache",
          "runtime monitor: metamorphic + reference-model oracle over generated databases and cache histories", "DESIGN.md §2 C12"),
    check("C13", "mon-import", "exploration",
          "Runtime monitor: seeded histories (forward batches, roll-backs to any earlier point / first stored block / range boundary +-1 / before the first stored block, imports with non-monotone targets, restarts = re-opened file-backed sqlite + new connection, pruning, and an injected store failure: one write of a batch of blocks fails in the middle of an import which is then retried in the same process) drive the REAL CardanoChainDataImporter, ChainReaderBlockStreamer and sqlite repositories through a chain-sync server model over a fork tree; after every step the tables are compared with a fresh import of the canonical chain to the same target and with an independent specification model, and the roots offered by the real signable builders at every beacon are compared with a node that imported exactly to the beacon.",
          "the chain-sync model mirrors what PallasChainReader relays (decisions documented in reader.rs, self-checked); six known findings printed as KNOWN-FINDING; targets never above the node's tip; the only injected store fault is a failing store_blocks_and_transactions (nothing written)",
          "runtime monitor: recomputation-from-scratch + specification-model oracle over roll-back histories", "DESIGN.md §2 C13"),
    check("C14", "mon-agg", "exploration",
          "History monitor over the REAL aggregator (its own DependenciesBuilder wiring, file-backed sqlite, real state machine/certifier/epoch service/signer registration/signed entity service; doubles only for the outside world): seeded random histories of ticks, epoch changes incl. jumps, new immutables/blocks, partial/late registrations, valid/repeated/invalid/early(buffered) signatures, forced expiry, clean restarts, genesis re-issue; after every event the tables are read through an independent connection and every new certificate row is judged (live open message + quorum of acknowledged valid deliveries, key/parameters recomputed from the logged registrations, parent rule, no double certification, no gap); every stored certificate is verified with the public certificate verifier fed from the aggregator's own message service. Held on the histories explored; evidence lists states/transitions reached.",
          "test doubles for chain observer / immutable observer / digester / block scanner / uploader / snapshotter; clean restarts only (C15 covers crashes); sqlite durability; registrations use the fixture's keys or freshly generated KES-certified keys (the last acknowledged registration of a party in a round is the key in force); an acknowledged registration counts for the round it names",
          "runtime monitor: boundary event log + table snapshots checked by a history checker (reference recomputation of keys, parent, quorum)", "DESIGN.md §2 C14"),
    check("C15", "mon-agg", "fault_enumeration",
          "Fault enumeration with real process deaths: scripted honest histories over the real aggregator (rotating over three configurations: all five signed entity types / MithrilStakeDistribution + CardanoDatabase / MithrilStakeDistribution alone) run once unarmed to record which named crash points (after multi-signature, after certificate insert, after open-message update, before/after artifact computation, after signed-entity insert, after each buffered hand-over, before/after buffer removal) are hit how often; then EVERY reached (point, occurrence) is crashed once by std::process::abort() inside the aggregator in a child process, a new process restarts on the same sqlite files and a monitor checks after the restart and after every further tick: all certificates verify with their chain under the public verifier, no signed entity has two artifacts, every artifact references a stored certificate of exactly that entity, and bounded progress, judged twice: inside the epoch of the restart (3 new immutable files must give a new certified artifact when CardanoDatabase is enabled) and overall (a new certified artifact within 8 macro steps of the honest workload, epoch changes included). Double crashes are sampled.",
          "sqlite durability; doubles of the outside world re-created at the persisted time point; the harness's signers sign each (signer, beacon) once: a signature acknowledged before the stop is never sent again; early (buffered) signatures incl. MithrilStakeDistribution at epoch changes; the harness waits logically for the aggregator's background artifact tasks after every tick; exhaustive only over the crash points x occurrences reached by the base histories of the run",
          "runtime monitoring under injected process crashes (abort at cfg-guarded crash points), invariants + bounded progress after restart", "DESIGN.md §2 C15"),
    check("C16", "mon-agg", "exploration",
          "Runtime monitor over the real aggregator: per open message the harness produces every party's honest signature itself (ground truth of who produced which sigma), then delivers shuffled honest + adversarial submissions (own sigma under another name, another party's sigma under own / unregistered name with full or truncated index lists, replays, truncated replays under the owner's name) through the certifier API, the real warp HTTP router, the buffered path and the message-queue signature processor; after every submission the single_signature table is read independently: each row must hold a sigma that verifies under the key the labelled party registered, no sigma under two labels, acknowledged honest contributions never disappear or shrink; the sealed certificate's signer list must name only parties with such a row.",
          "ground truth by construction + mithril-stm verification under the labelled party's registered key; on the message queue the party id is bound by the transport so relabelling is only sent through HTTP/API; the queue channel goes through the real SignatureConsumerDmq (batches with messages it must discard); the buffer itself is not judged, its hand-over is (an honest signature acknowledged as buffered and last accepted under its owner's name must be in the table once the message is open)",
          "runtime monitor: ground-truth-by-construction oracle over the store after every submission", "DESIGN.md §2 C16"),
    check("C17", "mon-beacon", "exploration",
          "Runtime monitor: the real SignedEntityConfig::time_point_to_signed_entity / compute_block_number_to_be_signed evaluated on an exhaustive grid (tip 0..700 x 14 security parameters x 15 steps, successive-tip pairs) and millions of seeded 64-bit samples; i128 oracle from the statement: upper bound tip-security floored at 0, monotone in the tip, whole steps, block-range boundary for the transaction entity, purity/agreement across independently built configs and all entity types, epoch 0.",
          "security parameters are sampled up to u64::MAX (one configuration in eight above 2^40), steps up to 2^40, tips up to 2^62; the direction of rounding the step to the range length is not fixed by the statement: the oracle accepts either as long as one candidate explains every selection of a configuration",
          "runtime monitor: arithmetic reference oracle over an exhaustive grid + random samples", "DESIGN.md §2 C17"),
    check("C18", "mon-pool", "exploration",
          "Runtime monitor over the real ResourcePool with resources tagged by the generation that created them: one atomic global sequence counter stamps acquire call/return, give-back (explicit item / drop / raw), refresh begin/complete and count samples; a happens-before checker asserts (S1) an acquire called after refresh_complete(g) returns a tag >= g, (S2) no resource held twice, (S3) count <= size always, (S4, bounded) blocked callers wake or time out. Levels: exhaustive single-threaded histories (10-operation alphabet up to length 6, pool sizes 1-3), exhaustive refresh-window histories (every sequence of up to 3 operations of a second actor at every scheduling point inside the refresher's own call sequence), 6.4k random histories, 336 multi-threaded stress runs (2-12 threads, with and without seeded delays at the four cfg-guarded hook points between the pool's critical sections; tens of thousands of distinct refresh-window event orders), wake-up scenarios; thorough adds Miri seeds (distinct replayable interleavings, UB/data-race checking) and a ThreadSanitizer run on an FFI-free build of the same source file.",
          "the prover-level race (compute_cache vs proof requests) is represented by a refresher thread performing exactly the prover's call sequence; S4 is wall-clock based and can only make a run inconclusive",
          "runtime monitor: sequence-stamped event log + happens-before checker under stress, seeded delay hooks, Miri and TSan", "DESIGN.md §2 C18"),
    check("C19", "mon-client", "exploration",
          "Runtime monitor: recursive listing (path, size, sha256) of the target directory before and after the real CardanoDatabaseClient::download_unpack on harness-built archives (tar + zstd/gzip served from file://): immutable archives with extra entries (ledger/, volatile/, top-level, nested, out-of-range trios, directories, symlinks, hard links, absolute and .. paths), ancillary archives with unlisted files and every manifest / signature alteration, with and without the ancillary option, faults (truncated archives, absent listed files, blocked moves); oracle: new files must be in-range immutable trios, the client's own markers, or manifest-listed files with matching hash under a manifest whose signature verifies; nothing of a failed ancillary verification may remain.",
          "ten known findings (immutable archives unpacked in place, temp dir left on abort, manifest hash encoding) printed as KNOWN-FINDING; file:// only",
          "runtime monitor: before/after directory listing against an allowed-set oracle on crafted archives", "DESIGN.md §2 C19"),
    check("C20", "mon-signer", "exploration",
          "History monitor coupling the REAL signer runtime (StateMachine + SignerRunner + real services over file-backed sqlite, real KES signer; sources of /repo/mithril-signer compiled unchanged through a shim crate that only drops the duplicate global allocator) with the REAL aggregator of mon-agg in one process: the signers use the repo's own AggregatorHttpClient and network configuration provider over a loopback listener to a fault-injecting front that forwards to the aggregator's real warp router. Seeded histories over several epochs (epoch changes with new stake distributions, immutables, blocks, dropped requests, lost replies, stale epoch settings, 'round not yet opened', aggregator down / restart, signer restart / stop over whole registration windows). Oracle over the boundary log: (E1) one acknowledged publication and one sigma per beacon, failed publications retried; (E2) every sigma verifies with mithril-stm under the key the signer registered two epochs earlier (model computed from the log only) and is accepted by the aggregator when timely; (E3) signatures only from ReadyToSign with an eligible registration; (E4) bounded resumption after restarts.",
          "two liveness known findings printed as KNOWN-FINDING; histories include aggregator restarts with changed protocol parameters (the model reads the parameters per round from the aggregator's own epoch-settings replies) and signer nodes lagging one epoch behind at epoch changes; restarts between ticks only; signer keys come from OsRng inside the code under test (schedules are seeded, sigma values differ between runs)",
          "runtime monitor: boundary event log of two coupled real runtimes under injected faults, checked by a history checker", "DESIGN.md §2 C20"),
]

ALL = [f"C{i:02d}" for i in range(1, 21)]

def main():
    claimed = {c["property_id"] for c in CHECKS}
    na = [{"property_id": p, "reason": "check not built yet in this round (planned in DESIGN.md; the technique applies)"}
          for p in ALL if p not in claimed]
    hooks_commits = []
    hc = os.path.join(ROOT, "hooks_commits.txt")
    if os.path.exists(hc):
        hooks_commits = [l.split()[0] for l in open(hc) if l.strip() and not l.startswith("#")]
    manifest = {
        "version": 1,
        "setup_cmd": "./check --build-all",
        "hooks": {
            "guard": "--cfg mithril_verif",
            "enable": "RUSTFLAGS='--cfg mithril_verif' (set by ./check and harness/.cargo/config.toml); hooks are #[cfg(mithril_verif)] items in /repo crates",
            "baseline_off_cmd": "cd /repo && cargo nextest run --workspace --no-fail-fast --tool-config-file pb:/w/lib/nextest.toml --profile pb --test-threads 8 --offline || cargo test --workspace --no-fail-fast --offline",
            "source_commits": hooks_commits,
            "add_only": True,
        },
        "engines": [
            {"name": "mon-stm", "path": "harness/mon-stm", "serves_properties": ["C01", "C02", "C06", "C08"],
             "kind_free_text": "Rust monitors linking mithril-stm of the working tree; reference oracles in refagg.rs/reflot.rs"},
            {"name": "mon-agg", "path": "harness/mon-agg", "serves_properties": ["C14", "C15", "C16"],
             "kind_free_text": "the real aggregator (DependenciesBuilder wiring, file-backed sqlite) driven by seeded histories in child processes; history / store checkers"},
            {"name": "mon-chain", "path": "harness/mon-chain", "serves_properties": ["C03"], "kind_free_text": "certificate chains + adversarial provider tables against common and client verifiers; reference validator"},
            {"name": "mon-merkle", "path": "harness/mon-merkle", "serves_properties": ["C09"], "kind_free_text": "exhaustive small-tree proof enumeration and mutation against reference trees"},
            {"name": "mon-proof", "path": "harness/mon-proof", "serves_properties": ["C11"], "kind_free_text": "real prover services over sqlite + client verification flow on tampered responses"},
            {"name": "mon-pool", "path": "harness/mon-pool", "serves_properties": ["C18"], "kind_free_text": "resource pool stress with event log + happens-before checker; l3/ = FFI-free workspace for Miri / TSan"},
            {"name": "mon-wire", "path": "harness/mon-wire", "serves_properties": ["C04", "C05"], "kind_free_text": "certificate mutators / JSON round trips; decoder corpus in child processes with counting allocator"},
            {"name": "mon-client", "path": "harness/mon-client", "serves_properties": ["C10", "C19"], "kind_free_text": "real mithril-client over file:// served digests and archives; directory ground truth"},
            {"name": "mon-import", "path": "harness/mon-import", "serves_properties": ["C13"], "kind_free_text": "real chain importer + sqlite repositories driven by a chain-sync server model over a fork tree"},
            {"name": "mon-signer", "path": "harness/mon-signer", "serves_properties": ["C20"], "kind_free_text": "real signer runtimes (shim-compiled /repo sources) against the real aggregator over a fault-injecting loopback front"},
            {"name": "mon-reg", "path": "harness/mon-reg", "serves_properties": ["C07"], "kind_free_text": "registration submissions with harness-made keys against the three real registration entry points"},
            {"name": "mon-beacon", "path": "harness/mon-beacon", "serves_properties": ["C17"], "kind_free_text": "grid + random evaluation of the beacon selection against an i128 oracle"},
            {"name": "mon-digest", "path": "harness/mon-digest", "serves_properties": ["C12"], "kind_free_text": "real immutable digester on harness-written databases; metamorphic + reference root"},
        ],
        "checks": CHECKS,
        "not_applicable": na,
        "notes": "Exit codes of ./check: 0 held, 1 violation (VIOLATION line), 2 inconclusive (build failure / too few non-trivial cases). Known findings: /verif/known_findings.json.",
    }
    with open(os.path.join(ROOT, "MANIFEST.json"), "w") as f:
        json.dump(manifest, f, indent=1)
        f.write("\n")
    print("MANIFEST.json written:", len(CHECKS), "checks,", len(na), "not claimed")

if __name__ == "__main__":
    main()
