#!/bin/bash
# Run a registered check against a seeded breaking change WITHOUT touching /repo:
#   tools/run_mutant_isolated.sh <Cxx> <patch.diff> [tier]
# A git worktree of /repo's HEAD gets the patch; a throw-away copy of the harness workspace is
# pointed at it (path rewrite /repo/ -> worktree) with its own target dir and VERIF_ROOT, then the
# property's monitor runs. Exit code = the monitor's (1 = the check caught the change).
# (The official procedure - git -C /repo apply, ./check, git checkout - is tools/run_mutant_on_repo.sh;
# this isolated variant exists so that parallel work on /repo is not disturbed.)
set -u
PROP=$1; PATCH=$(readlink -f "$2"); TIER=${3:-quick}
T=${MUTRUN_TAG:-}; WT=/tmp/mutrun-wt$T; WS=/tmp/mutrun-ws$T; VR=/tmp/mutrun-root$T
declare -A ENG=( [C01]=mon-stm [C02]=mon-stm [C06]=mon-stm [C08]=mon-stm [C09]=mon-merkle [C03]=mon-chain [C04]=mon-wire [C05]=mon-wire [C07]=mon-reg [C10]=mon-client [C19]=mon-client [C11]=mon-proof [C12]=mon-digest [C13]=mon-import [C17]=mon-beacon [C18]=mon-pool [C14]=mon-agg [C15]=mon-agg [C16]=mon-agg [C20]=mon-signer )
PKG=${ENG[$PROP]}
if [ ! -d $WT ]; then git -C /repo worktree add -q --detach $WT HEAD || exit 2; fi
git -C $WT checkout -q --detach $(git -C /repo rev-parse HEAD) && git -C $WT reset -q --hard && git -C $WT clean -qfd
git -C $WT apply "$PATCH" || { echo "patch does not apply"; exit 2; }
mkdir -p $WS $VR/evidence
rsync -a --delete --exclude 'target*' /verif/harness/ $WS/
grep -rl "/repo/" $WS --include=Cargo.toml --include=*.rs | xargs sed -i "s#/repo/#$WT/#g"
cp /verif/known_findings.json $VR/; rsync -a /verif/checkers $VR/
cd $WS && CARGO_TARGET_DIR=$WS/target RUSTFLAGS="--cfg mithril_verif" cargo build --offline -p $PKG 2>&1 | tail -3
[ -x $WS/target/debug/$PKG ] || { echo "INCONCLUSIVE build failed"; exit 2; }
cd $VR && RUST_BACKTRACE=0 RUST_LIB_BACKTRACE=0 VERIF_ROOT=$VR $WS/target/debug/$PKG $PROP --tier $TIER > $VR/out.txt 2>&1
RC=$?
grep -E "^VIOLATION|signature:|HELD|INCONCLUSIVE|KNOWN" $VR/out.txt | sort | uniq -c | sort -rn | head -8
echo "exit=$RC"
exit $RC
