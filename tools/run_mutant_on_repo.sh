#!/bin/bash
# The official procedure: apply a seeded change to /repo, run the registered check, undo.
#   tools/run_mutant_on_repo.sh <Cxx> <patch.diff> [tier]
# Only use while nothing else builds against /repo.
set -u
PROP=$1; PATCH=$(readlink -f "$2"); TIER=${3:-quick}
cd /verif
git -C /repo diff --quiet || { echo "/repo has uncommitted changes - refusing"; exit 2; }
git -C /repo apply "$PATCH" || { echo "patch does not apply"; exit 2; }
./check $PROP --tier $TIER > /tmp/run_mutant_on_repo.out 2>&1; RC=$?
git -C /repo checkout -- . ; git -C /repo clean -qfd
grep -E "^VIOLATION|signature:|HELD|INCONCLUSIVE|KNOWN" /tmp/run_mutant_on_repo.out | sort | uniq -c | sort -rn | head -8
echo "exit=$RC"; exit $RC
