#!/usr/bin/env python3
"""Store a confirmed seeded breaking change under /verif/seeded/<id>/.
usage: store_seeded.py <Cxx> <m1|m2> <caught:yes|no|after-strengthening> "<check result line>" ["note"]"""
import json, os, shutil, sys
prop, m, caught, result = sys.argv[1:5]
note = sys.argv[5] if len(sys.argv) > 5 else ""
src = f"/tmp/mut-{prop}/OUT/{m}"
sid = f"{prop}-{m}"
dst = f"/verif/seeded/{sid}"
os.makedirs(dst, exist_ok=True)
for f in ("patch.diff", "demo.diff"):
    shutil.copy(os.path.join(src, f), os.path.join(dst, f))
meta = json.load(open(os.path.join(src, "meta.json")))
def tail(p):
    try:
        return open(p).read()[-600:]
    except Exception:
        return ""
meta_out = {
    "id": sid,
    "property": prop,
    "origin": "independent sub-agent given only the property text and a scratch worktree of /repo (nothing from /verif)",
    "summary": meta.get("summary"),
    "needs_to_manifest": meta.get("needs_to_manifest"),
    "touched_crates": meta.get("touched_crates"),
    "agent_tests_run": meta.get("tests_run"),
    "demo_cmd": meta.get("demo_cmd"),
    "confirmed_by_lead": {
        "procedure": "tools/confirm_seeded.sh in the scratch worktree: existing test suites of the touched crates with the change applied; demonstration with the change (must fail) and without (must pass)",
        "demo_with_change_tail": tail(os.path.join(src, "confirm_with.log")),
        "demo_without_change_tail": tail(os.path.join(src, "confirm_without.log")),
    },
    "check_result": {
        "caught": caught,
        "command": f"tools/run_mutant_isolated.sh {prop} seeded/{sid}/patch.diff   (./check {prop} --tier quick against a worktree with the change; see also tools/run_mutant_on_repo.sh)",
        "result": result,
        "note": note,
    },
}
json.dump(meta_out, open(os.path.join(dst, "meta.json"), "w"), indent=1)
print("stored", dst)
